// Package faultrun enumerates storage faults (C05): for every mutating API operation and every k, the k-th
// storage operation issued by the call fails; the run is recorded (result, class of the resulting logical
// database: pre / post / partial, notifications) for validation against spec/Atomicity.tla.
package faultrun

import (
	"context"
	"crypto/sha256"
	"encoding/hex"
	"encoding/json"
	"fmt"
	"os"
	"sort"
	"strings"
	"time"

	"github.com/ipfs/go-cid"
	"github.com/sourcenetwork/immutable"
	"github.com/sourcenetwork/lens/host-go/config/model"

	"github.com/sourcenetwork/defradb/client"
	"github.com/sourcenetwork/defradb/event"
	"github.com/sourcenetwork/defradb/verif/cluster"
	"github.com/sourcenetwork/defradb/verif/kvfault"
)

type Line struct {
	Op       string `json:"op"`
	Prior    string `json:"prior"`
	N        int    `json:"n"`
	K        int    `json:"k"`
	Res      string `json:"res"`
	Cls      string `json:"cls"`
	Nev      int    `json:"nev"`
	ExpectEv int    `json:"expect_ev"`
	Retry    string `json:"retry"`
	Kind     string `json:"fault_kind"`
	Err      string `json:"err,omitempty"`
	Diff     string `json:"diff,omitempty"`
}

type env struct {
	ctx   context.Context
	n     *cluster.Node
	fs    *kvfault.Store
	ids   map[string]string
	evs   chan event.Update
	other *cluster.Node // for the merge operation: a peer that produced a commit
	colID string
	tmp   string
}

const sdlPlain = `type T { name: String
 v: Int
 tags: [String] }`
const sdlIndexed = `type T { name: String @index(unique: true)
 v: Int @index
 tags: [String] }`
const sdlBranchable = `type T @branchable { name: String
 v: Int
 tags: [String] }`

// Priors: named generators of prior database contents.
var Priors = []string{"empty", "docs", "docs+deleted"}

func newEnv(ctx context.Context, variant, prior, tmp string) (*env, error) {
	inner, err := cluster.NewBadgerMem()
	if err != nil {
		return nil, err
	}
	fs := kvfault.Wrap(inner)
	n, err := cluster.NewNode(ctx, "n", cluster.Options{Store: fs})
	if err != nil {
		return nil, err
	}
	e := &env{ctx: ctx, n: n, fs: fs, ids: map[string]string{}, evs: make(chan event.Update, 256), tmp: tmp}
	sdl := sdlPlain
	switch variant {
	case "indexed":
		sdl = sdlIndexed
	case "branchable":
		sdl = sdlBranchable
	}
	cols, err := n.DB.AddSchema(ctx, sdl)
	if err != nil {
		return nil, err
	}
	e.colID = cols[0].CollectionID
	mk := func(name string, v int) error {
		d, err := n.Exec(ctx, fmt.Sprintf(`mutation { create_T(input: {name: %q, v: %d, tags: ["x","y"]}) { _docID } }`, name, v))
		if err != nil {
			return err
		}
		e.ids[name] = cluster.Rows(d, "create_T")[0]["_docID"].(string)
		return nil
	}
	if prior != "empty" {
		for i, nm := range []string{"a", "b", "c"} {
			if err := mk(nm, i); err != nil {
				return nil, err
			}
		}
		if _, err := n.Exec(ctx, fmt.Sprintf(`mutation { update_T(docID: %q, input: {v: 5}) { _docID } }`, e.ids["b"])); err != nil {
			return nil, err
		}
	}
	if prior == "docs+deleted" {
		if err := mk("z", 9); err != nil {
			return nil, err
		}
		if _, err := n.Exec(ctx, fmt.Sprintf(`mutation { delete_T(docID: %q) { _docID } }`, e.ids["z"])); err != nil {
			return nil, err
		}
	}
	sub, err := n.DB.Events().Subscribe(event.UpdateName, markerName)
	if err != nil {
		return nil, err
	}
	go func() {
		for m := range sub.Message() {
			if m.Name == markerName {
				e.evs <- event.Update{DocID: "\x00marker"}
			} else if u, ok := m.Data.(event.Update); ok {
				e.evs <- u
			}
		}
	}()
	return e, nil
}

const markerName = event.Name("verif-marker")

// drainEvents counts the update notifications received so far; exact thanks to an in-order marker.
func (e *env) drainEvents() int {
	e.n.DB.Events().Publish(event.NewMessage(markerName, nil))
	c := 0
	deadline := time.After(10 * time.Second)
	for {
		select {
		case u := <-e.evs:
			if u.DocID == "\x00marker" {
				return c
			}
			c++
		case <-deadline:
			return -1000
		}
	}
}

func (e *env) close() { e.n.Close() }

// Operation is one mutating API call.
type Operation struct {
	Name    string
	Needs   string // "" | "docs": needs prior documents
	Prepare func(e *env) error
	Run     func(e *env) error
}

func gql(e *env, q string) error {
	_, err := e.n.Exec(e.ctx, q)
	return err
}

func tcol(e *env) (client.Collection, error) { return e.n.DB.GetCollectionByName(e.ctx, "T") }

// Operations lists the API operations of C05.
func Operations() []Operation {
	return []Operation{
		{Name: "create", Run: func(e *env) error {
			return gql(e, `mutation { create_T(input: {name: "n1", v: 11, tags: ["p"]}) { _docID } }`)
		}},
		{Name: "createMany", Run: func(e *env) error {
			return gql(e, `mutation { create_T(input: [{name: "m1", v: 21}, {name: "m2", v: 22}, {name: "m3", v: 23}]) { _docID } }`)
		}},
		{Name: "update", Needs: "docs", Run: func(e *env) error {
			return gql(e, fmt.Sprintf(`mutation { update_T(docID: %q, input: {v: 77, tags: ["q"]}) { _docID } }`, e.ids["a"]))
		}},
		{Name: "delete", Needs: "docs", Run: func(e *env) error {
			return gql(e, fmt.Sprintf(`mutation { delete_T(docID: %q) { _docID } }`, e.ids["a"]))
		}},
		{Name: "updateWithFilter", Needs: "docs", Run: func(e *env) error {
			return gql(e, `mutation { update_T(filter: {v: {_ge: 0}}, input: {v: 42}) { _docID } }`)
		}},
		{Name: "deleteWithFilter", Needs: "docs", Run: func(e *env) error {
			return gql(e, `mutation { delete_T(filter: {v: {_ge: 0}}) { _docID } }`)
		}},
		// the same two through the collection API instead of a request
		{Name: "colUpdateWithFilter", Needs: "docs", Run: func(e *env) error {
			col, err := tcol(e)
			if err != nil {
				return err
			}
			_, err = col.UpdateWithFilter(e.ctx, `{v: {_ge: 0}}`, `{"v": 43}`)
			return err
		}},
		{Name: "colDeleteWithFilter", Needs: "docs", Run: func(e *env) error {
			col, err := tcol(e)
			if err != nil {
				return err
			}
			_, err = col.DeleteWithFilter(e.ctx, `{v: {_ge: 0}}`)
			return err
		}},
		{Name: "upsertUpdate", Needs: "docs", Run: func(e *env) error {
			return gql(e, `mutation { upsert_T(filter: {name: {_eq: "a"}}, create: {name: "a", v: 1}, update: {v: 31}) { _docID } }`)
		}},
		{Name: "upsertCreate", Run: func(e *env) error {
			return gql(e, `mutation { upsert_T(filter: {name: {_eq: "u9"}}, create: {name: "u9", v: 1}, update: {v: 31}) { _docID } }`)
		}},
		{Name: "colSave", Needs: "docs", Run: func(e *env) error {
			col, err := tcol(e)
			if err != nil {
				return err
			}
			id, err := client.NewDocIDFromString(e.ids["c"])
			if err != nil {
				return err
			}
			doc, err := col.Get(e.ctx, id, false)
			if err != nil {
				return err
			}
			if err := doc.Set("v", int64(64)); err != nil {
				return err
			}
			return col.Save(e.ctx, doc)
		}},
		{Name: "indexCreate", Needs: "docs", Run: func(e *env) error {
			col, err := tcol(e)
			if err != nil {
				return err
			}
			_, err = col.CreateIndex(e.ctx, client.IndexCreateRequest{Name: "tags_idx", Fields: []client.IndexedFieldDescription{{Name: "tags"}}})
			return err
		}},
		{Name: "indexDrop", Needs: "docs", Prepare: func(e *env) error {
			col, err := tcol(e)
			if err != nil {
				return err
			}
			_, err = col.CreateIndex(e.ctx, client.IndexCreateRequest{Name: "tmp_idx", Fields: []client.IndexedFieldDescription{{Name: "v", Descending: true}}})
			return err
		}, Run: func(e *env) error {
			col, err := tcol(e)
			if err != nil {
				return err
			}
			return col.DropIndex(e.ctx, "tmp_idx")
		}},
		{Name: "schemaAdd", Run: func(e *env) error {
			_, err := e.n.DB.AddSchema(e.ctx, `type W { title: String
 n: Int @index }`)
			return err
		}},
		{Name: "schemaPatch", Run: func(e *env) error {
			return e.n.DB.PatchSchema(e.ctx, `[{"op": "add", "path": "/T/Fields/-", "value": {"Name": "extra", "Kind": "String"}}]`, immutable.None[model.Lens](), true)
		}},
		{Name: "import", Run: func(e *env) error {
			p := e.tmp + "/import.json"
			if err := os.WriteFile(p, []byte(`{"T":[{"name":"i1","v":1,"tags":["a"]},{"name":"i2","v":2,"tags":null}]}`), 0o644); err != nil {
				return err
			}
			return e.n.DB.BasicImport(e.ctx, p)
		}},
		{Name: "mergeRemote", Needs: "docs", Prepare: func(e *env) error {
			// a peer with the same document updates it; its blocks are copied here (network sync), the merge is the operation
			o, err := cluster.NewNode(e.ctx, "peer", cluster.Options{})
			if err != nil {
				return err
			}
			e.other = o
			if _, err := o.DB.AddSchema(e.ctx, sdlPlain); err != nil {
				return err
			}
			if _, err := o.Exec(e.ctx, `mutation { create_T(input: {name: "a", v: 0, tags: ["x","y"]}) { _docID } }`); err != nil {
				return err
			}
			if _, err := o.Exec(e.ctx, fmt.Sprintf(`mutation { update_T(docID: %q, input: {v: 500}) { _docID } }`, e.ids["a"])); err != nil {
				return err
			}
			d, err := o.Exec(e.ctx, fmt.Sprintf(`query { latestCommits(docID: %q) { cid } }`, e.ids["a"]))
			if err != nil {
				return err
			}
			c, _ := cid.Decode(cluster.Rows(d, "latestCommits")[0]["cid"].(string))
			_, err = cluster.CopyClosure(e.ctx, o, e.n, c)
			e.ids["_merge"] = c.String()
			return err
		}, Run: func(e *env) error {
			c, _ := cid.Decode(e.ids["_merge"])
			return e.n.Merge(e.ctx, e.colID, e.ids["a"], c)
		}},
	}
}

// dump returns the canonical logical dump of the node.
func (e *env) dump() (string, error) {
	ctx := e.ctx
	out := map[string]any{}
	cols, err := e.n.DB.GetCollections(ctx, client.CollectionFetchOptions{IncludeInactive: immutable.Some(true)})
	if err != nil {
		return "", fmt.Errorf("GetCollections: %w", err)
	}
	var cd []any
	for _, c := range cols {
		idx, err := c.GetIndexes(ctx)
		if err != nil {
			return "", fmt.Errorf("GetIndexes: %w", err)
		}
		v := c.Version()
		cd = append(cd, map[string]any{"name": c.Name(), "version": v.VersionID, "colid": v.CollectionID, "active": v.IsActive, "fields": fmt.Sprint(c.Definition().GetFields()), "indexes": fmt.Sprint(idx)})
	}
	out["collections"] = cd
	// the GraphQL types the node serves
	d, err := e.n.Exec(ctx, `query { __schema { queryType { fields { name } } } }`)
	if err != nil {
		return "", fmt.Errorf("introspection: %w", err)
	}
	out["gql"] = d
	names := []string{}
	for _, c := range cols {
		if c.Version().IsActive {
			names = append(names, c.Name())
		}
	}
	sort.Strings(names)
	for _, nm := range names {
		sel := "_docID _deleted"
		for _, f := range cols[0].Definition().GetFields() {
			_ = f
		}
		for _, c := range cols {
			if c.Name() == nm && c.Version().IsActive {
				for _, f := range c.Definition().GetFields() {
					if f.Name != "_docID" && !f.Kind.IsObject() {
						sel += " " + f.Name
					}
				}
			}
		}
		d, err := e.n.Exec(ctx, fmt.Sprintf(`query { %s(showDeleted: true, order: {_docID: ASC}) { %s } }`, nm, sel))
		if err != nil {
			return "", fmt.Errorf("query %s: %w", nm, err)
		}
		out["docs:"+nm] = d
	}
	if len(names) > 0 && names[0] == "T" || contains(names, "T") {
		for _, q := range []string{`T(filter: {v: {_ge: 5}}, order: {name: ASC}) { name v }`, `T(filter: {name: {_eq: "a"}}) { name v }`, `T(filter: {v: {_eq: 42}}, order: {name: ASC}) { name }`, `T(filter: {tags: {_any: {_eq: "x"}}}, order: {name: ASC}) { name }`} {
			d, err := e.n.Exec(ctx, "query { "+q+" }")
			if err != nil {
				return "", fmt.Errorf("indexable query: %w", err)
			}
			out["q:"+q] = d
		}
	}
	d, err = e.n.Exec(ctx, `query { commits(order: {cid: ASC}) { cid docID height fieldName } }`)
	if err != nil {
		return "", fmt.Errorf("commits: %w", err)
	}
	out["commits"] = d
	heads, err := e.n.RawKeys(ctx, "/db/heads/")
	if err != nil {
		return "", err
	}
	out["heads"] = cluster.SortedKeys(heads)
	// index entries as stored
	data, err := e.n.RawKeys(ctx, "/db/data/")
	if err != nil {
		return "", err
	}
	out["datakeys"] = cluster.SortedKeys(data)
	b, _ := json.Marshal(out)
	return string(b), nil
}

func contains(xs []string, x string) bool {
	for _, y := range xs {
		if y == x {
			return true
		}
	}
	return false
}

func hash(s string) string {
	h := sha256.Sum256([]byte(s))
	return hex.EncodeToString(h[:8])
}

func firstDiff(a, b string) string {
	var ma, mb map[string]json.RawMessage
	json.Unmarshal([]byte(a), &ma)
	json.Unmarshal([]byte(b), &mb)
	var ks []string
	for k := range ma {
		if string(ma[k]) != string(mb[k]) {
			ks = append(ks, k)
		}
	}
	for k := range mb {
		if _, ok := ma[k]; !ok {
			ks = append(ks, k)
		}
	}
	sort.Strings(ks)
	return strings.Join(ks, ",")
}

// Enumerate runs op on prior for the fault-free count and then for every k (or every stride-th k).
func Enumerate(ctx context.Context, variant, prior string, op Operation, stride, offset int, tmp string, out func(Line)) error {
	setup := func() (*env, string, error) {
		e, err := newEnv(ctx, variant, prior, tmp)
		if err != nil {
			return nil, "", err
		}
		if op.Prepare != nil {
			if err := op.Prepare(e); err != nil {
				return nil, "", fmt.Errorf("prepare: %w", err)
			}
		}
		e.drainEvents()
		pre, err := e.dump()
		return e, pre, err
	}
	// fault-free run: N and the post state
	e, pre, err := setup()
	if err != nil {
		return fmt.Errorf("%s/%s setup: %w", prior, op.Name, err)
	}
	e.fs.C.Arm(0, false)
	rerr := op.Run(e)
	n, _ := e.fs.C.Disarm()
	if rerr != nil {
		e.close()
		return fmt.Errorf("%s/%s fault-free run failed: %w", prior, op.Name, rerr)
	}
	expectEv := e.drainEvents()
	post, err := e.dump()
	if err != nil {
		return err
	}
	if e.other != nil {
		e.other.Close()
	}
	e.close()
	if post == pre {
		return fmt.Errorf("%s/%s has no effect on the dump (vacuous)", prior, op.Name)
	}
	out(Line{Op: op.Name, Prior: prior, N: n, K: 0, Res: "ok", Cls: "post", Nev: expectEv, ExpectEv: expectEv})
	for k := 1 + offset; k <= n; k += stride {
		e, pre2, err := setup()
		if err != nil {
			return fmt.Errorf("%s/%s setup: %w", prior, op.Name, err)
		}
		if pre2 != pre {
			e.close()
			return fmt.Errorf("%s/%s: prior state is not reproducible (%s)", prior, op.Name, firstDiff(pre, pre2))
		}
		e.fs.C.Arm(k, false)
		rerr := op.Run(e)
		seen, kind := e.fs.C.Disarm()
		_ = seen
		ln := Line{Op: op.Name, Prior: prior, N: n, K: k, ExpectEv: expectEv, Kind: kind}
		ln.Nev = e.drainEvents()
		if rerr != nil {
			ln.Res, ln.Err = "error", rerr.Error()
			if len(ln.Err) > 300 {
				ln.Err = ln.Err[:300]
			}
		} else {
			ln.Res = "ok"
		}
		after, derr := e.dump()
		switch {
		case derr != nil:
			ln.Cls, ln.Diff = "partial", "dump failed: "+derr.Error()
		case after == pre:
			ln.Cls = "pre"
		case after == post:
			ln.Cls = "post"
		default:
			ln.Cls, ln.Diff = "partial", "differs from pre in ["+firstDiff(pre, after)+"] and from post in ["+firstDiff(post, after)+"]"
		}
		if kind == "" {
			// the call issued fewer than k operations this time (non-deterministic count): not a fault run
			ln.K = 0
		}
		if ln.Res == "error" {
			// the node must not be poisoned: the same call without a fault now succeeds completely
			if err := op.Run(e); err != nil {
				ln.Retry = "error: " + err.Error()
			} else {
				e.drainEvents()
				again, derr := e.dump()
				if derr == nil && again == post {
					ln.Retry = "post"
				} else {
					ln.Retry = "partial [" + firstDiff(post, again) + "]"
				}
			}
		}
		out(ln)
		if e.other != nil {
			e.other.Close()
		}
		e.close()
	}
	return nil
}
