// Package mergereplay steps behaviours of spec/MerkleCRDT.tla through real DefraDB nodes and compares,
// after every step, the real node's observable state with the observation the specification predicts.
package mergereplay

import (
	"bytes"
	"context"
	"crypto/sha256"
	"encoding/json"
	"errors"
	"fmt"
	"math/rand"
	"os"
	"sort"
	"strings"
	"time"

	"github.com/ipfs/go-cid"
	mh "github.com/multiformats/go-multihash"

	"github.com/sourcenetwork/defradb/client"
	"github.com/sourcenetwork/defradb/event"
	"github.com/sourcenetwork/defradb/verif/cluster"
)

// ---------- behaviours as exported by TLC (spec/MerkleCRDT_gen.tla) ----------

// IntMap / SetMap decode TLA+ functions with string domain; ToJson renders the empty function as [].
type IntMap map[string]int
type SetMap map[string][]int

func (m *IntMap) UnmarshalJSON(b []byte) error {
	if bytes.Equal(bytes.TrimSpace(b), []byte("[]")) {
		*m = IntMap{}
		return nil
	}
	var x map[string]int
	if err := json.Unmarshal(b, &x); err != nil {
		return err
	}
	*m = x
	return nil
}

func (m *SetMap) UnmarshalJSON(b []byte) error {
	if bytes.Equal(bytes.TrimSpace(b), []byte("[]")) {
		*m = SetMap{}
		return nil
	}
	var x map[string][]int
	if err := json.Unmarshal(b, &x); err != nil {
		return err
	}
	*m = x
	return nil
}

type Obs struct {
	Ctr        IntMap `json:"ctr"`
	Nw         IntMap `json:"nw"`
	RegAllowed SetMap `json:"regAllowed"`
	RegLWW     IntMap `json:"regLWW"`
	Del        bool   `json:"del"`
	Exists     bool   `json:"exists"`
	Heads      []int  `json:"heads"`
	Fheads     SetMap `json:"fheads"`
	Mrg        []int  `json:"mrg"`
}

type Step struct {
	A    string `json:"a"`
	N    int    `json:"n"`
	C    int    `json:"c"`
	Cw   IntMap `json:"cw"`
	Rw   IntMap `json:"rw"`
	Par  []int  `json:"par"`
	Ht   int    `json:"ht"`
	Fpar SetMap `json:"fpar"`
	Fht  IntMap `json:"fht"`
	Fid  IntMap `json:"fid"`
	At   *Obs   `json:"at"`
	Obs  *Obs   `json:"obs"`
}

type Behaviour []Step

const NoW = -99

// ParseBehaviours reads the ndjson written by CSVWrite (each line a JSON string holding JSON) and keeps
// the maximal behaviours (a line that is a strict prefix of the following line is dropped).
func ParseBehaviours(data []byte, maximalOnly bool) ([]Behaviour, error) {
	var out []Behaviour
	if t := bytes.TrimSpace(data); len(t) > 0 && t[0] == '{' {
		// a replay file written by bin/check: an object carrying the behaviour
		var o struct {
			Data Behaviour `json:"behaviour_data"`
		}
		if err := json.Unmarshal(t, &o); err != nil {
			return nil, err
		}
		if o.Data == nil {
			return nil, fmt.Errorf("replay file carries no behaviour_data")
		}
		return []Behaviour{o.Data}, nil
	}
	// TLC's simulator evaluates the exporting action constraint for every candidate successor of every step, so a
	// simulation dump holds, per simulated behaviour, all one-step alternatives of all its prefixes. Only the complete
	// behaviours are wanted: lines are grouped per simulation (a line of length 1 after longer ones starts a new one) and
	// of each group the longest lines are kept (the alternatives of the last step; at most keepPerGroup of them).
	const keepPerGroup = 2
	var group []Behaviour
	flush := func() {
		if len(group) == 0 {
			return
		}
		if !maximalOnly {
			out = append(out, group...)
			group = nil
			return
		}
		max := 0
		for _, b := range group {
			if len(b) > max {
				max = len(b)
			}
		}
		kept := 0
		for i := len(group) - 1; i >= 0 && kept < keepPerGroup; i-- {
			if len(group[i]) == max {
				out = append(out, group[i])
				kept++
			}
		}
		group = nil
	}
	for _, line := range bytes.Split(data, []byte("\n")) {
		line = bytes.TrimSpace(line)
		if len(line) == 0 {
			continue
		}
		var inner string
		if line[0] == '"' {
			// CSV quoting: "" for a quote
			s := string(line[1 : len(line)-1])
			if strings.Contains(s, `\"`) {
				if err := json.Unmarshal(line, &inner); err != nil {
					return nil, err
				}
			} else {
				inner = strings.ReplaceAll(s, `""`, `"`)
			}
		} else {
			inner = string(line)
		}
		var b Behaviour
		if err := json.Unmarshal([]byte(inner), &b); err != nil {
			return nil, fmt.Errorf("bad behaviour line: %w", err)
		}
		if maximalOnly && len(b) == 1 && len(group) > 0 && len(group[len(group)-1]) > 1 {
			flush()
		}
		group = append(group, b)
	}
	flush()
	return out, nil
}

// ---------- concrete instantiation of abstract fields ----------

type fieldSpec struct {
	Name  string // concrete field name
	Decl  string // SDL type (+ directive)
	Scale int    // counters: concrete increment = Scale*abstract + Shift
	Shift int
	Float bool
	Kind  string // registers: value kind
}

// Config of one replay run.
type Config struct {
	Nodes      int
	Ctrs       []string // abstract counter fields
	Regs       []string // abstract register fields
	Variant    string   // "plain" | "branchable" | "indexed"
	Seed       int64
	Signing    bool
	AsyncEvery int  // every k-th behaviour is delivered through the real event bus path (0: never)
	Quiesce    bool // after each behaviour deliver everything everywhere and compare all nodes
	// SubEvery: every k-th behaviour runs with a GraphQL subscription open on every node and a consumer that reads
	// only once the behaviour is over (0: never). C03: each result shows the state of the commit that triggered it.
	SubEvery int
}

type Violation struct {
	Property  string    `json:"property"`
	Behaviour int       `json:"behaviour"`
	Step      int       `json:"step"`
	Kind      string    `json:"kind"`
	Msg       string    `json:"msg"`
	Data      Behaviour `json:"behaviour_data,omitempty"`
}

type Result struct {
	Behaviours     int            `json:"behaviours"`
	Steps          int            `json:"steps"`
	Comparisons    int            `json:"comparisons"`
	CidReads       int            `json:"cid_reads"`
	Deliveries     int            `json:"deliveries"`
	Redeliveries   int            `json:"redeliveries"`
	AsyncBehaviour int            `json:"async_behaviours"`
	ByAction       map[string]int `json:"by_action"`
	TieBreakDiffs  int            `json:"tiebreak_diffs"`
	SubBehaviours  int            `json:"subscription_behaviours"`
	SubResults     int            `json:"subscription_results"`
	Violations     []Violation    `json:"violations"`
	HarnessErrors  []string       `json:"harness_errors"`
}

type Driver struct {
	cfg          Config
	ctx          context.Context
	nodes        []*cluster.Node
	colID        string
	ctrF         map[string][]fieldSpec
	regF         map[string][]fieldSpec
	rng          *rand.Rand
	res          *Result
	serial       int
	mergeDone    []chan event.MergeComplete
	hungAtDelete bool
	cur          Behaviour
	actCtrs      []string // abstract fields present in the behaviour being replayed
	actRegs      []string
	subs         []*nodeSub
}

// nodeSub is a GraphQL subscription on one node together with what the local writes of the behaviour predict for it.
type nodeSub struct {
	ch     <-chan client.GQLResult
	cancel context.CancelFunc
	expect []subExpect
}

type subExpect struct {
	si     int
	action string
	row    map[string]any // what an ordinary query returned right after the write (nil for a delete)
	obs    *Obs
}

func ctrFields(a string) []fieldSpec {
	return []fieldSpec{
		{Name: a + "_pn", Decl: "Int @crdt(type: pncounter)", Scale: 3, Shift: 0},
		{Name: a + "_p", Decl: "Int @crdt(type: pcounter)", Scale: 1, Shift: 5},
		{Name: a + "_f", Decl: "Float @crdt(type: pncounter)", Scale: 1, Shift: 0, Float: true},
	}
}

func regFields(a string) []fieldSpec {
	return []fieldSpec{
		{Name: a + "_s", Decl: "String", Kind: "string"},
		{Name: a + "_i", Decl: "Int", Kind: "int"},
		{Name: a + "_f", Decl: "Float", Kind: "float"},
		{Name: a + "_b", Decl: "Boolean", Kind: "bool"},
		{Name: a + "_d", Decl: "DateTime", Kind: "datetime"},
		{Name: a + "_j", Decl: "JSON", Kind: "json"},
		{Name: a + "_l", Decl: "Blob", Kind: "blob"},
		{Name: a + "_ai", Decl: "[Int!]", Kind: "intarr"},
		{Name: a + "_as", Decl: "[String]", Kind: "strarr"},
	}
}

func New(ctx context.Context, cfg Config) (*Driver, error) {
	d := &Driver{cfg: cfg, ctx: ctx, rng: rand.New(rand.NewSource(cfg.Seed)), res: &Result{ByAction: map[string]int{}},
		ctrF: map[string][]fieldSpec{}, regF: map[string][]fieldSpec{}}
	var sdl strings.Builder
	switch cfg.Variant {
	case "branchable":
		sdl.WriteString("type Doc @branchable {\n")
	default:
		sdl.WriteString("type Doc {\n")
	}
	if cfg.Variant != "wide" {
		sdl.WriteString("  tag: String\n")
	}
	for _, a := range cfg.Ctrs {
		d.ctrF[a] = ctrFields(a)
		for _, f := range d.ctrF[a] {
			fmt.Fprintf(&sdl, "  %s: %s\n", f.Name, f.Decl)
		}
	}
	if cfg.Variant == "wide" {
		// a document type with more than twenty fields: the short ids of the fields written by the behaviours are spread
		// over one and two digits (padding fields, never written, sit between the counters and the registers)
		for i := 1; i <= 17; i++ {
			fmt.Fprintf(&sdl, "  m_pad%02d: Int\n", i)
		}
	}
	for _, a := range cfg.Regs {
		d.regF[a] = regFields(a)
		for _, f := range d.regF[a] {
			decl := f.Decl
			if cfg.Variant == "indexed" && (f.Kind == "string" || f.Kind == "int") {
				decl += " @index"
			}
			fmt.Fprintf(&sdl, "  %s: %s\n", f.Name, decl)
		}
	}
	if cfg.Variant == "wide" {
		sdl.WriteString("  tag: String\n")
	}
	sdl.WriteString("}\n")
	for i := 0; i < cfg.Nodes; i++ {
		n, err := cluster.NewNode(ctx, fmt.Sprintf("n%d", i+1), cluster.Options{Signing: false})
		if err != nil {
			return nil, err
		}
		cols, err := n.DB.AddSchema(ctx, sdl.String())
		if err != nil {
			return nil, fmt.Errorf("AddSchema: %w\n%s", err, sdl.String())
		}
		if d.colID == "" {
			d.colID = cols[0].CollectionID
		} else if d.colID != cols[0].CollectionID {
			return nil, fmt.Errorf("collection ids differ between nodes")
		}
		d.nodes = append(d.nodes, n)
		sub, err := n.DB.Events().Subscribe(event.MergeCompleteName)
		if err != nil {
			return nil, err
		}
		// never let the bus block on us: drain continuously into a large buffer
		ch := make(chan event.MergeComplete, 4096)
		go func() {
			for m := range sub.Message() {
				if mc, ok := m.Data.(event.MergeComplete); ok {
					select {
					case ch <- mc:
					default:
					}
				}
			}
		}()
		d.mergeDone = append(d.mergeDone, ch)
	}
	return d, nil
}

func (d *Driver) Close() {
	for _, n := range d.nodes {
		n.Close()
	}
}

func (d *Driver) Result() *Result { return d.res }

// value tables: abstract value (1..) -> GraphQL literal and expected JSON value, per kind; 0 is null.
type valTable struct {
	lit  map[string][]string // kind -> literal by abstract value index (1-based stored at i-1)
	want map[string][]any
}

func (d *Driver) newValTable(maxV int) *valTable {
	t := &valTable{lit: map[string][]string{}, want: map[string][]any{}}
	r := d.rng
	randStr := func() string {
		const al = "abcdefghijklmnopqrstuvwxyzABCDEFGHIJKLMNOPQRSTUVWXYZ0123456789 _-"
		n := r.Intn(6)
		b := make([]byte, n)
		for i := range b {
			b[i] = al[r.Intn(len(al))]
		}
		return string(b)
	}
	usedS := map[string]bool{}
	usedI := map[int64]bool{}
	for v := 1; v <= maxV; v++ {
		s := randStr()
		for usedS[s] {
			s = randStr() + "x"
		}
		usedS[s] = true
		t.lit["string"] = append(t.lit["string"], fmt.Sprintf("%q", s))
		t.want["string"] = append(t.want["string"], s)
		var i int64
		for {
			switch r.Intn(4) {
			case 0:
				i = int64(r.Intn(48)) - 24 // around the 1-byte CBOR boundary and sign change
			case 1:
				i = int64(r.Intn(600)) - 300
			case 2:
				i = r.Int63n(1<<31) - (1 << 30)
			default:
				i = int64(r.Intn(4)) - 1
			}
			if !usedI[i] {
				break
			}
		}
		usedI[i] = true
		t.lit["int"] = append(t.lit["int"], fmt.Sprint(i))
		t.want["int"] = append(t.want["int"], json.Number(fmt.Sprint(i)))
		f := float64(i) + 0.5
		t.lit["float"] = append(t.lit["float"], fmt.Sprint(f))
		t.want["float"] = append(t.want["float"], f)
		b := v%2 == 1
		if maxV <= 2 {
			// distinct booleans for the two abstract values, polarity random
			if v == 1 {
				b = r.Intn(2) == 0
			} else {
				b = !(t.want["bool"][0].(bool))
			}
		}
		t.lit["bool"] = append(t.lit["bool"], fmt.Sprint(b))
		t.want["bool"] = append(t.want["bool"], b)
		tm := time.Date(2000+r.Intn(30), time.Month(1+r.Intn(12)), 1+r.Intn(28), r.Intn(24), r.Intn(60), v, 0, time.UTC)
		ts := tm.Format(time.RFC3339)
		t.lit["datetime"] = append(t.lit["datetime"], fmt.Sprintf("%q", ts))
		t.want["datetime"] = append(t.want["datetime"], ts)
		t.lit["json"] = append(t.lit["json"], fmt.Sprintf("{a: %d, b: %q}", i, s))
		t.want["json"] = append(t.want["json"], map[string]any{"a": json.Number(fmt.Sprint(i)), "b": s})
		blob := fmt.Sprintf("%02x%02x", r.Intn(256), v)
		t.lit["blob"] = append(t.lit["blob"], fmt.Sprintf("%q", blob))
		t.want["blob"] = append(t.want["blob"], blob)
		t.lit["intarr"] = append(t.lit["intarr"], fmt.Sprintf("[%d, %d]", i, v))
		t.want["intarr"] = append(t.want["intarr"], []any{json.Number(fmt.Sprint(i)), json.Number(fmt.Sprint(v))})
		t.lit["strarr"] = append(t.lit["strarr"], fmt.Sprintf("[%q, null]", s))
		t.want["strarr"] = append(t.want["strarr"], []any{s, nil})
	}
	return t
}

func (t *valTable) literal(kind string, v int) string {
	if v == 0 {
		return "null"
	}
	return t.lit[kind][v-1]
}
func (t *valTable) expected(kind string, v int) any {
	if v == 0 {
		return nil
	}
	return t.want[kind][v-1]
}

type docState struct {
	tag       string
	docID     string
	vals      *valTable
	cids      map[int]cid.Cid            // abstract commit -> composite cid
	owner     map[int]int                // abstract commit -> node index that has it
	lastObs   map[int]*Obs               // node -> last predicted observation
	content   map[int]*Step              // abstract commit -> creating step
	fcid      map[int]map[string]cid.Cid // abstract commit -> concrete field -> cid of the linked field block
	async     bool
	delivered map[[2]int]bool
}

func (d *Driver) violate(prop string, bi, si int, kind, format string, a ...any) {
	v := Violation{Property: prop, Behaviour: bi, Step: si, Kind: kind, Msg: fmt.Sprintf(format, a...)}
	// attach the behaviour to the first violation of each (property, behaviour) so that it can be replayed
	first := true
	for _, o := range d.res.Violations {
		if o.Property == prop && o.Behaviour == bi && o.Data != nil {
			first = false
		}
	}
	if first {
		v.Data = d.cur
	}
	d.res.Violations = append(d.res.Violations, v)
}

func (d *Driver) inputFor(ds *docState, st *Step, create bool) string {
	var parts []string
	if create {
		parts = append(parts, fmt.Sprintf("tag: %q", ds.tag))
	}
	for _, a := range d.actCtrs {
		inc, ok := st.Cw[a]
		if !ok || inc == NoW {
			continue
		}
		for _, f := range d.ctrF[a] {
			v := f.Scale*inc + f.Shift
			if f.Float {
				parts = append(parts, fmt.Sprintf("%s: %v", f.Name, float64(v)+0.5))
			} else {
				parts = append(parts, fmt.Sprintf("%s: %d", f.Name, v))
			}
		}
	}
	for _, a := range d.actRegs {
		v, ok := st.Rw[a]
		if !ok || v == NoW {
			continue
		}
		for _, f := range d.regF[a] {
			parts = append(parts, fmt.Sprintf("%s: %s", f.Name, ds.vals.literal(f.Kind, v)))
		}
	}
	return "{" + strings.Join(parts, ", ") + "}"
}

func (d *Driver) selection() string {
	sel := []string{"_docID", "_deleted", "tag"}
	for _, a := range d.cfg.Ctrs {
		for _, f := range d.ctrF[a] {
			sel = append(sel, f.Name)
		}
	}
	for _, a := range d.cfg.Regs {
		for _, f := range d.regF[a] {
			sel = append(sel, f.Name)
		}
	}
	return strings.Join(sel, " ")
}

// latestHead returns the single composite head of the document on node n.
func (d *Driver) heads(n *cluster.Node, docID string) ([]string, error) {
	data, err := n.Exec(d.ctx, fmt.Sprintf(`query { latestCommits(docID: %q) { cid height } }`, docID))
	if err != nil {
		return nil, err
	}
	var out []string
	for _, r := range cluster.Rows(data, "latestCommits") {
		out = append(out, r["cid"].(string))
	}
	sort.Strings(out)
	return out, nil
}

func maxVal(b Behaviour) int {
	m := 2
	for _, s := range b {
		for _, v := range s.Rw {
			if v != NoW && v > m {
				m = v
			}
		}
	}
	return m
}

// Replay steps one behaviour through the cluster.
func (d *Driver) Replay(bi int, b Behaviour) {
	d.serial++
	d.cur = b
	d.actCtrs, d.actRegs = nil, nil
	if len(b) > 0 {
		for _, a := range d.cfg.Ctrs {
			if _, ok := b[0].Obs.Ctr[a]; ok {
				d.actCtrs = append(d.actCtrs, a)
			}
		}
		for _, a := range d.cfg.Regs {
			if _, ok := b[0].Obs.RegAllowed[a]; ok {
				d.actRegs = append(d.actRegs, a)
			}
		}
	}
	ds := &docState{
		tag:       fmt.Sprintf("t-%d-%d-%d", d.cfg.Seed, d.serial, d.rng.Int63()),
		cids:      map[int]cid.Cid{},
		owner:     map[int]int{},
		lastObs:   map[int]*Obs{},
		content:   map[int]*Step{},
		fcid:      map[int]map[string]cid.Cid{},
		delivered: map[[2]int]bool{},
	}
	ds.vals = d.newValTable(maxVal(b))
	ds.async = d.cfg.AsyncEvery > 0 && d.serial%d.cfg.AsyncEvery == 0
	if ds.async {
		d.res.AsyncBehaviour++
	}
	d.res.Behaviours++
	d.subs = nil
	if d.cfg.SubEvery > 0 && d.serial%d.cfg.SubEvery == 0 {
		if !d.openSubs() {
			return
		}
		defer d.closeSubs()
		d.res.SubBehaviours++
	}
	for si := range b {
		st := &b[si]
		d.res.Steps++
		d.res.ByAction[st.A]++
		n := d.nodes[st.N-1]
		ok := d.step(bi, si, ds, st, n)
		if !ok {
			return // harness could not continue this behaviour (already recorded)
		}
		ds.lastObs[st.N-1] = st.Obs
		d.compareNode(bi, si, ds, st.N-1, st.Obs)
		if d.subs != nil && st.A != "deliver" {
			// a local write: the subscription of this node owes one result showing the state of this commit,
			// which is what the ordinary query returns right now
			e := subExpect{si: si, action: st.A, obs: st.Obs}
			if rows, err := d.queryDoc(n, ds, false, ""); err == nil && len(rows) == 1 {
				e.row = rows[0]
			}
			d.subs[st.N-1].expect = append(d.subs[st.N-1].expect, e)
		}
	}
	if d.subs != nil {
		d.checkSubs(bi, ds)
	}
	for ni, o := range ds.lastObs {
		if o != nil && o.Exists && ds.docID != "" {
			d.dagInvariants(bi, len(b), ds.docID, ni)
		}
	}
	d.finalChecks(bi, len(b), ds)
}

func (d *Driver) openSubs() bool {
	for _, n := range d.nodes {
		ctx, cancel := context.WithCancel(d.ctx)
		res := n.DB.ExecRequest(ctx, fmt.Sprintf(`subscription { Doc { %s } }`, d.selection()))
		if len(res.GQL.Errors) > 0 || res.Subscription == nil {
			cancel()
			d.herr("subscription on %s: %v", n.Name, res.GQL.Errors)
			d.closeSubs()
			return false
		}
		d.subs = append(d.subs, &nodeSub{ch: res.Subscription, cancel: cancel})
	}
	return true
}

func (d *Driver) closeSubs() {
	for _, s := range d.subs {
		s.cancel()
		// let the routine see the cancellation (it may be parked on the unbuffered result channel)
		go func(ch <-chan client.GQLResult) {
			for range ch {
			}
		}(s.ch)
	}
	d.subs = nil
}

// checkSubs reads the results of every subscription only now, after all the writes of the behaviour: the consumer was
// slow, so every event but the first was evaluated while later commits of the same document already existed.
func (d *Driver) checkSubs(bi int, ds *docState) {
	for ni, s := range d.subs {
		n := d.nodes[ni]
		for _, e := range s.expect {
			if strings.HasSuffix(e.action, "del") {
				// a delete leaves no live document to report: no result (a stray one is taken for the result of
				// the next write, or reported as extra at the end)
				continue
			}
			var got *client.GQLResult
			wait := 5 * time.Second
			select {
			case r, ok := <-s.ch:
				if ok {
					got = &r
				}
			case <-time.After(wait):
			}
			if got == nil {
				d.violate("C03", bi, e.si, "subscription-missing", "subscription on %s: no result for the local %s of step %d within %s", n.Name, e.action, e.si, wait)
				return
			}
			d.res.SubResults++
			if len(got.Errors) > 0 {
				d.violate("C03", bi, e.si, "subscription-error", "subscription on %s: result for step %d carries errors %v", n.Name, e.si, got.Errors)
				return
			}
			norm, err := cluster.Normalize(got.Data)
			if err != nil {
				d.herr("subscription result: %v", err)
				return
			}
			rows := cluster.Rows(norm, "Doc")
			if len(rows) != 1 {
				d.violate("C03", bi, e.si, "subscription-rows", "subscription on %s: result for step %d has %d rows", n.Name, e.si, len(rows))
				return
			}
			where := fmt.Sprintf("subscription on %s, result for the %s of step %d", n.Name, e.action, e.si)
			d.compareDocRow("C03", bi, e.si, ds, where, rows[0], e.obs)
			if e.row != nil {
				for k, v := range e.row {
					if !sameJSON(rows[0][k], v) {
						d.violate("C03", bi, e.si, "subscription-vs-query", "%s: %s = %v, but the ordinary query right after that commit returned %v", where, k, rows[0][k], v)
					}
				}
			}
		}
		select {
		case r, ok := <-s.ch:
			if ok {
				d.violate("C03", bi, len(d.cur), "subscription-extra", "subscription on %s: a result beyond one per local write: %v", n.Name, r.Data)
			}
		case <-time.After(60 * time.Millisecond):
		}
	}
}

// recordLinks remembers the field blocks linked by a freshly written commit and checks that block identity
// follows content addressing as the specification predicts (fid): an identical register write on top of the
// same field parents is the same block; anything else is a new block.
func (d *Driver) recordLinks(bi, si int, ds *docState, n *cluster.Node, c int, cc cid.Cid) bool {
	blk, _, err := n.GetBlock(d.ctx, cc)
	if err != nil {
		d.violate("C04", bi, si, "closed", "commit %d (%s) just written on %s is not in its block store: %v", c, cc, n.Name, err)
		return false
	}
	ds.fcid[c] = map[string]cid.Cid{}
	for _, l := range blk.Links {
		ds.fcid[c][l.Name] = l.Cid
	}
	st := ds.content[c]
	group := func(abstract string, fs []fieldSpec) {
		id, ok := st.Fid[abstract]
		if !ok || id == 0 {
			return
		}
		for _, f := range fs {
			mine, ok := ds.fcid[c][f.Name]
			if !ok {
				continue // reported by checkDAG as a missing link
			}
			if id != c {
				if other, ok := ds.fcid[id][f.Name]; ok && !other.Equals(mine) {
					d.violate("C04", bi, si, "content-address", "commit %d field %s: same content and parents as the block of commit %d but a different cid", c, f.Name, id)
				}
				continue
			}
			for oc, m := range ds.fcid {
				if oc != c && ds.content[oc] != nil && ds.content[oc].Fid[abstract] == oc {
					if other, ok := m[f.Name]; ok && other.Equals(mine) {
						d.violate("C04", bi, si, "cid-reuse", "commit %d field %s: a new block got the cid of the block of commit %d", c, f.Name, oc)
					}
				}
			}
		}
	}
	for _, a := range d.actCtrs {
		group(a, d.ctrF[a])
	}
	for _, a := range d.actRegs {
		group(a, d.regF[a])
	}
	return true
}

func (d *Driver) herr(format string, a ...any) {
	d.res.HarnessErrors = append(d.res.HarnessErrors, fmt.Sprintf(format, a...))
}

func (d *Driver) step(bi, si int, ds *docState, st *Step, n *cluster.Node) bool {
	switch st.A {
	case "create", "recreate":
		var cst *Step
		if st.A == "create" {
			ds.content[st.C] = st
			cst = st
		} else {
			cst = ds.content[1]
		}
		data, err := n.Exec(d.ctx, fmt.Sprintf(`mutation { create_Doc(input: %s) { _docID } }`, d.inputFor(ds, cst, true)))
		if err != nil {
			d.herr("b%d s%d create failed: %v", bi, si, err)
			return false
		}
		rows := cluster.Rows(data, "create_Doc")
		if len(rows) != 1 {
			d.herr("b%d s%d create returned %d rows", bi, si, len(rows))
			return false
		}
		id := rows[0]["_docID"].(string)
		hs, err := d.heads(n, id)
		if err != nil || len(hs) != 1 {
			d.violate("C04", bi, si, "heads-after-local-write", "after create on %s: heads=%v err=%v (want exactly one)", n.Name, hs, err)
			return false
		}
		c, _ := cid.Decode(hs[0])
		if st.A == "create" {
			ds.docID = id
			ds.cids[1] = c
			ds.owner[1] = st.N - 1
			if !d.recordLinks(bi, si, ds, n, 1, c) {
				return false
			}
		} else {
			// C04/C13: the same initial document created on another node is the same commit, byte for byte
			if id != ds.docID {
				d.violate("C04", bi, si, "genesis-docid", "same initial document got docID %s on %s but %s before", id, n.Name, ds.docID)
				return false
			}
			if !c.Equals(ds.cids[1]) {
				d.violate("C04", bi, si, "genesis-cid", "same initial document got genesis commit %s on %s but %s before", c, n.Name, ds.cids[1])
				return false
			}
			_, raw1, err1 := d.nodes[ds.owner[1]].GetBlock(d.ctx, c)
			_, raw2, err2 := n.GetBlock(d.ctx, c)
			if err1 != nil || err2 != nil || !bytes.Equal(raw1, raw2) {
				d.violate("C04", bi, si, "genesis-bytes", "genesis blocks differ between nodes (%v %v)", err1, err2)
			}
		}
	case "upd", "del", "reupd", "redel":
		same := strings.HasPrefix(st.A, "re") // content-addressed coincidence with an existing commit
		if !same {
			ds.content[st.C] = st
		}
		var err error
		if strings.HasSuffix(st.A, "upd") {
			_, err = n.Exec(d.ctx, fmt.Sprintf(`mutation { update_Doc(docID: %q, input: %s) { _docID } }`, ds.docID, d.inputFor(ds, st, false)))
		} else {
			_, err = n.Exec(d.ctx, fmt.Sprintf(`mutation { delete_Doc(docID: %q) { _docID } }`, ds.docID))
		}
		if err != nil {
			// the spec enables a local write exactly when the document exists and is not deleted on n
			d.violate("C02", bi, si, "local-write-refused", "%s on %s refused although the spec state allows it: %v", st.A, n.Name, err)
			return false
		}
		hs, err := d.heads(n, ds.docID)
		if err != nil || len(hs) != 1 {
			d.violate("C04", bi, si, "heads-after-local-write", "after %s on %s: heads=%v err=%v (want exactly one)", st.A, n.Name, hs, err)
			return false
		}
		c, _ := cid.Decode(hs[0])
		if same {
			if !c.Equals(ds.cids[st.C]) {
				d.violate("C04", bi, si, "content-address", "a write with the content and parents of commit %d got cid %s, not %s", st.C, c, ds.cids[st.C])
				return false
			}
			return true
		}
		for k, v := range ds.cids {
			if v.Equals(c) {
				d.violate("C04", bi, si, "cid-reuse", "new commit %d has the cid of commit %d", st.C, k)
				return false
			}
		}
		ds.cids[st.C] = c
		ds.owner[st.C] = st.N - 1
		if !d.recordLinks(bi, si, ds, n, st.C, c) {
			return false
		}
	case "deliver":
		c, ok := ds.cids[st.C]
		if !ok {
			d.herr("b%d s%d deliver of unknown commit %d", bi, si, st.C)
			return false
		}
		src := d.nodes[ds.owner[st.C]]
		d.res.Deliveries++
		if ds.delivered[[2]int{st.N, st.C}] || ds.owner[st.C] == st.N-1 {
			d.res.Redeliveries++
		}
		ds.delivered[[2]int{st.N, st.C}] = true
		if src != n {
			if _, err := cluster.CopyClosure(d.ctx, src, n, c); err != nil {
				d.herr("b%d s%d copy closure: %v", bi, si, err)
				return false
			}
		}
		if ds.async {
			if err := d.asyncMerge(st.N-1, ds.docID, c); err != nil {
				d.violate("C01", bi, si, "merge-failed", "merge of commit %d (%s) on %s via event bus: %v", st.C, c, n.Name, err)
				return false
			}
		} else if err := n.Merge(d.ctx, d.colID, ds.docID, c); err != nil {
			d.violate("C01", bi, si, "merge-failed", "merge of commit %d (%s) on %s failed: %v", st.C, c, n.Name, err)
			return false
		}
	default:
		d.herr("unknown action %q", st.A)
		return false
	}
	return true
}

// asyncMerge delivers through the node's real path: event.Merge on the bus -> handleMessages -> mergeQueue -> executeMerge.
func (d *Driver) asyncMerge(ni int, docID string, c cid.Cid) error {
	n := d.nodes[ni]
	sub := d.mergeDone[ni]
	// drain stale completions
	for {
		select {
		case <-sub:
			continue
		default:
		}
		break
	}
	n.DB.Events().Publish(event.NewMessage(event.MergeName, event.Merge{DocID: docID, Cid: c, CollectionID: d.colID}))
	deadline := time.After(10 * time.Second)
	for {
		select {
		case mc := <-sub:
			if mc.Merge.Cid.Equals(c) {
				return nil
			}
		case <-deadline:
			return fmt.Errorf("no merge-complete event within 10s (merge failed or hung)")
		}
	}
}

func sameJSON(a, b any) bool {
	ja, _ := json.Marshal(a)
	jb, _ := json.Marshal(b)
	if bytes.Equal(ja, jb) {
		return true
	}
	// numbers: compare as float
	fa, oka := toFloat(a)
	fb, okb := toFloat(b)
	return oka && okb && fa == fb
}

func toFloat(x any) (float64, bool) {
	switch v := x.(type) {
	case json.Number:
		f, err := v.Float64()
		return f, err == nil
	case float64:
		return v, true
	case int:
		return float64(v), true
	case int64:
		return float64(v), true
	}
	return 0, false
}

func (d *Driver) cidSet(ds *docState, ids []int) []string {
	out := make([]string, 0, len(ids))
	for _, i := range ids {
		out = append(out, ds.cids[i].String())
	}
	sort.Strings(out)
	return out
}

// compareDocRow checks a query row against a predicted observation. where describes the read.
func (d *Driver) compareDocRow(prop string, bi, si int, ds *docState, where string, row map[string]any, o *Obs) {
	d.res.Comparisons++
	for _, a := range d.actCtrs {
		for _, f := range d.ctrF[a] {
			want := float64(f.Scale*o.Ctr[a] + f.Shift*o.Nw[a])
			if f.Float {
				want += 0.5 * float64(o.Nw[a])
			}
			got, ok := toFloat(row[f.Name])
			if o.Nw[a] == 0 {
				if row[f.Name] != nil && !(ok && got == 0) {
					d.violate(prop, bi, si, "counter", "%s: %s = %v, want null/0 (no increment merged)", where, f.Name, row[f.Name])
				}
				continue
			}
			if !ok || got != want {
				d.violate(prop, bi, si, "counter", "%s: %s = %v, want %v (= sum of the %d merged increments, each once)", where, f.Name, row[f.Name], want, o.Nw[a])
			}
		}
	}
	for _, a := range d.actRegs {
		for _, f := range d.regF[a] {
			got := row[f.Name]
			okAny := false
			for _, v := range o.RegAllowed[a] {
				if sameJSON(got, ds.vals.expected(f.Kind, v)) {
					okAny = true
				}
			}
			if !okAny {
				d.violate(prop, bi, si, "register", "%s: %s = %v, not the value of any causally latest write %v", where, f.Name, got, o.RegAllowed[a])
			} else if !sameJSON(got, ds.vals.expected(f.Kind, o.RegLWW[a])) && f.Kind == "string" {
				d.res.TieBreakDiffs++ // evidence only: the code's tie-break differs from the model's rank order
			}
		}
	}
}

func (d *Driver) queryDoc(n *cluster.Node, ds *docState, showDeleted bool, atCid string) ([]map[string]any, error) {
	args := []string{fmt.Sprintf(`docID: %q`, ds.docID)}
	if showDeleted {
		args = append(args, "showDeleted: true")
	}
	if atCid != "" {
		args = append(args, fmt.Sprintf("cid: %q", atCid))
	}
	data, err := n.Exec(d.ctx, fmt.Sprintf(`query { Doc(%s) { %s } }`, strings.Join(args, ", "), d.selection()))
	if err != nil {
		return nil, err
	}
	return cluster.Rows(data, "Doc"), nil
}

// compareNode projects node ni and compares with the predicted observation o.
func (d *Driver) compareNode(bi, si int, ds *docState, ni int, o *Obs) {
	n := d.nodes[ni]
	where := fmt.Sprintf("node %s after step %d", n.Name, si)
	rowsAll, err := d.queryDoc(n, ds, true, "")
	if err != nil {
		d.violate("C01", bi, si, "query-error", "%s: query failed: %v", where, err)
		return
	}
	rowsLive, err := d.queryDoc(n, ds, false, "")
	if err != nil {
		d.violate("C01", bi, si, "query-error", "%s: query failed: %v", where, err)
		return
	}
	if !o.Exists {
		if len(rowsAll) != 0 {
			d.violate("C02", bi, si, "phantom", "%s: document visible although nothing was merged", where)
		}
		return
	}
	if len(rowsAll) != 1 {
		d.violate("C02", bi, si, "missing", "%s: showDeleted query returned %d rows, want 1", where, len(rowsAll))
		return
	}
	row := rowsAll[0]
	gotDel, _ := row["_deleted"].(bool)
	if gotDel != o.Del {
		d.violate("C02", bi, si, "deleted", "%s: _deleted = %v, want %v (deleted exactly when a merged commit deleted it)", where, gotDel, o.Del)
	}
	if o.Del && len(rowsLive) != 0 {
		d.violate("C02", bi, si, "deleted", "%s: deleted document still returned by a plain query", where)
	}
	if !o.Del && len(rowsLive) != 1 {
		d.violate("C02", bi, si, "deleted", "%s: live document not returned by a plain query (%d rows)", where, len(rowsLive))
	}
	if !o.Del && len(rowsLive) == 1 && !sameJSON(rowsLive[0], row) {
		d.violate("C01", bi, si, "views-differ", "%s: plain and showDeleted views differ: %v vs %v", where, rowsLive[0], row)
	}
	d.compareDocRow("C02", bi, si, ds, where, row, o)
	// heads as reported by the API and as stored
	hs, err := d.heads(n, ds.docID)
	if err != nil {
		d.violate("C04", bi, si, "heads", "%s: latestCommits failed: %v", where, err)
		return
	}
	want := d.cidSet(ds, o.Heads)
	if strings.Join(hs, ",") != strings.Join(want, ",") {
		d.violate("C04", bi, si, "heads", "%s: latestCommits = %v, want the maximal merged commits %v (abstract %v)", where, short(hs), short(want), o.Heads)
	}
	raw, err := n.RawKeys(d.ctx, "/db/heads/d/"+ds.docID+"/C/")
	if err == nil {
		var rh []string
		for k := range raw {
			rh = append(rh, k[strings.LastIndex(k, "/")+1:])
		}
		sort.Strings(rh)
		if strings.Join(rh, ",") != strings.Join(want, ",") {
			d.violate("C04", bi, si, "heads-raw", "%s: head store = %v, want %v", where, short(rh), short(want))
		}
	}
}

func short(xs []string) []string {
	out := make([]string, len(xs))
	for i, x := range xs {
		if len(x) > 8 {
			out[i] = x[len(x)-8:]
		} else {
			out[i] = x
		}
	}
	return out
}

// finalChecks: convergence of nodes with equal merged sets (C01), time-travel reads (C03), DAG well-formedness (C04).
func (d *Driver) finalChecks(bi, si int, ds *docState) {
	// C01: nodes with equal mrg must be indistinguishable
	type proj struct {
		rows  string
		heads string
	}
	groups := map[string][]int{}
	for ni, o := range ds.lastObs {
		if o == nil || !o.Exists {
			continue
		}
		groups[fmt.Sprint(o.Mrg)] = append(groups[fmt.Sprint(o.Mrg)], ni)
	}
	for key, g := range groups {
		if len(g) < 2 {
			continue
		}
		sort.Ints(g)
		var first proj
		for i, ni := range g {
			rows, err := d.queryDoc(d.nodes[ni], ds, true, "")
			if err != nil {
				d.violate("C01", bi, si, "query-error", "final query on %s: %v", d.nodes[ni].Name, err)
				continue
			}
			hs, _ := d.heads(d.nodes[ni], ds.docID)
			jb, _ := json.Marshal(rows)
			p := proj{string(jb), strings.Join(hs, ",")}
			d.res.Comparisons++
			if i == 0 {
				first = p
			} else if p != first {
				d.violate("C01", bi, si, "diverged", "nodes %s and %s merged the same commits %s but differ: %s | %s  vs  %s | %s",
					d.nodes[g[0]].Name, d.nodes[ni].Name, key, first.rows, short(strings.Split(first.heads, ",")), p.rows, short(strings.Split(p.heads, ",")))
			}
		}
	}
	// C03: query at every merged commit on every node
	for ni, o := range ds.lastObs {
		if o == nil {
			continue
		}
		n := d.nodes[ni]
		for _, c := range o.Mrg {
			st := ds.content[c]
			if st == nil || st.At == nil {
				continue
			}
			if d.hungAtDelete && st.At.Del {
				continue // already reported; each further attempt would cost a full timeout
			}
			d.res.CidReads++
			rows, err := d.queryDoc(n, ds, true, ds.cids[c].String())
			where := fmt.Sprintf("node %s, read at commit %d (%s)", n.Name, c, ds.cids[c])
			if err != nil {
				if errors.Is(err, cluster.ErrHang) {
					d.violate("C03", bi, si, "cid-read-hang", "%s (deleted=%v) never returned: %v", where, st.At.Del, err)
					if st.At.Del {
						d.hungAtDelete = true
					}
					continue
				}
				d.violate("C03", bi, si, "cid-read-error", "%s failed: %v", where, err)
				continue
			}
			if len(rows) != 1 {
				if st.At.Del && len(rows) == 0 {
					continue // reading at a delete commit: nothing selected is acceptable
				}
				d.violate("C03", bi, si, "cid-read-rows", "%s returned %d rows", where, len(rows))
				continue
			}
			d.compareDocRow("C03", bi, si, ds, where, rows[0], st.At)
		}
		// at a single head the versioned read equals the current read
		if len(o.Heads) == 1 && !o.Del {
			cur, err1 := d.queryDoc(n, ds, false, "")
			at, err2 := d.queryDoc(n, ds, false, ds.cids[o.Heads[0]].String())
			if err1 == nil && err2 == nil && len(cur) == 1 && len(at) == 1 {
				d.res.Comparisons++
				if !sameJSON(cur[0], at[0]) {
					d.violate("C03", bi, si, "head-read", "node %s: read at the single head %v differs from the current read: %v vs %v", n.Name, o.Heads, at[0], cur[0])
				}
			}
		}
	}
	// C04: commit graph of every node
	for ni, o := range ds.lastObs {
		if o == nil {
			continue
		}
		d.checkDAG(bi, si, ds, ni, o)
	}
	// reads must not change anything: the projection after the time-travel reads equals the predicted one
	for ni, o := range ds.lastObs {
		if o == nil {
			continue
		}
		before := len(d.res.Violations)
		d.compareNode(bi, si, ds, ni, o)
		for i := before; i < len(d.res.Violations); i++ {
			d.res.Violations[i].Kind = "after-reads:" + d.res.Violations[i].Kind
		}
	}
	if d.cfg.Quiesce {
		d.quiesce(bi, si, ds)
	}
}

// quiesce delivers every commit to every node (each delivery is a legal Deliver action of the specification)
// in a seeded random order, twice, and then requires all nodes to be indistinguishable (C01) and every
// merge to succeed.
func (d *Driver) quiesce(bi, si int, ds *docState) {
	type dl struct{ n, c int }
	var all []dl
	for c := range ds.cids {
		for ni := range d.nodes {
			all = append(all, dl{ni, c})
		}
	}
	sort.Slice(all, func(i, j int) bool { return all[i].n*1000+all[i].c < all[j].n*1000+all[j].c })
	for round := 0; round < 2; round++ {
		d.rng.Shuffle(len(all), func(i, j int) { all[i], all[j] = all[j], all[i] })
		for _, x := range all {
			n := d.nodes[x.n]
			src := d.nodes[ds.owner[x.c]]
			if src != n {
				if _, err := cluster.CopyClosure(d.ctx, src, n, ds.cids[x.c]); err != nil {
					d.herr("quiesce copy: %v", err)
					return
				}
			}
			d.res.Deliveries++
			if err := n.Merge(d.ctx, d.colID, ds.docID, ds.cids[x.c]); err != nil {
				d.violate("C01", bi, si, "merge-failed", "quiescence: merge of commit %d on %s failed: %v", x.c, n.Name, err)
				return
			}
		}
	}
	var first, firstHeads string
	for ni, n := range d.nodes {
		rows, err := d.queryDoc(n, ds, true, "")
		if err != nil {
			d.violate("C01", bi, si, "query-error", "quiescence query on %s: %v", n.Name, err)
			return
		}
		live, _ := d.queryDoc(n, ds, false, "")
		hs, _ := d.heads(n, ds.docID)
		jb, _ := json.Marshal([]any{rows, live})
		d.res.Comparisons++
		if ni == 0 {
			first, firstHeads = string(jb), strings.Join(hs, ",")
		} else if string(jb) != first || strings.Join(hs, ",") != firstHeads {
			d.violate("C01", bi, si, "diverged-at-quiescence", "all nodes merged all %d commits but %s and %s differ: %s heads %v  vs  %s heads %v",
				len(ds.cids), d.nodes[0].Name, n.Name, first, short(strings.Split(firstHeads, ",")), string(jb), short(hs))
		}
	}
}

func (d *Driver) checkDAG(bi, si int, ds *docState, ni int, o *Obs) {
	n := d.nodes[ni]
	// field block cids per abstract commit and concrete field
	fieldCid := map[int]map[string]cid.Cid{}
	for _, c := range o.Mrg {
		cc := ds.cids[c]
		blk, raw, err := n.GetBlock(d.ctx, cc)
		where := fmt.Sprintf("node %s commit %d (%s)", n.Name, c, cc)
		if err != nil {
			d.violate("C04", bi, si, "closed", "%s: merged commit not in the block store: %v", where, err)
			continue
		}
		d.res.Comparisons++
		// filed under the hash of its bytes
		sum := sha256.Sum256(raw)
		dm, _ := mh.Decode(cc.Hash())
		if dm == nil || !bytes.Equal(dm.Digest, sum[:]) {
			d.violate("C04", bi, si, "content-address", "%s: block bytes do not hash to its cid", where)
		}
		st := ds.content[c]
		if st == nil {
			continue
		}
		if int(blk.Delta.GetPriority()) != st.Ht {
			d.violate("C04", bi, si, "height", "%s: height %d, want %d (1 + max parent height)", where, blk.Delta.GetPriority(), st.Ht)
		}
		var gotPar []string
		for _, h := range blk.Heads {
			gotPar = append(gotPar, h.Cid.String())
		}
		sort.Strings(gotPar)
		wantPar := d.cidSet(ds, st.Par)
		if strings.Join(gotPar, ",") != strings.Join(wantPar, ",") {
			d.violate("C04", bi, si, "parents", "%s: parents %v, want %v (abstract %v)", where, short(gotPar), short(wantPar), st.Par)
		}
		fieldCid[c] = map[string]cid.Cid{}
		for _, l := range blk.Links {
			fieldCid[c][l.Name] = l.Cid
			if ok, _ := n.Blockstore().Has(d.ctx, l.Cid); !ok {
				d.violate("C04", bi, si, "closed", "%s: field link %s does not resolve", where, l.Name)
			}
		}
	}
	// field blocks: heights and parents follow the per-field clock of the spec
	check := func(c int, abstract string, f fieldSpec) {
		st := ds.content[c]
		fc, ok := fieldCid[c][f.Name]
		if !ok {
			d.violate("C04", bi, si, "links", "node %s commit %d: no link for written field %s", n.Name, c, f.Name)
			return
		}
		blk, _, err := n.GetBlock(d.ctx, fc)
		if err != nil {
			return
		}
		d.res.Comparisons++
		if int(blk.Delta.GetPriority()) != st.Fht[abstract] {
			d.violate("C04", bi, si, "field-height", "node %s commit %d field %s: height %d, want %d", n.Name, c, f.Name, blk.Delta.GetPriority(), st.Fht[abstract])
		}
		var got, want []string
		for _, h := range blk.Heads {
			got = append(got, h.Cid.String())
		}
		for _, p := range st.Fpar[abstract] {
			if pc, ok := ds.fcid[p][f.Name]; ok {
				want = append(want, pc.String())
			} else {
				want = append(want, fmt.Sprintf("?%d", p))
			}
		}
		sort.Strings(got)
		sort.Strings(want)
		if strings.Join(got, ",") != strings.Join(want, ",") {
			d.violate("C04", bi, si, "field-parents", "node %s commit %d field %s: parents %v, want %v (abstract %v)", n.Name, c, f.Name, short(got), short(want), st.Fpar[abstract])
		}
	}
	for _, c := range o.Mrg {
		st := ds.content[c]
		if st == nil || fieldCid[c] == nil {
			continue
		}
		for _, a := range d.actCtrs {
			if v, ok := st.Cw[a]; ok && v != NoW {
				for _, f := range d.ctrF[a] {
					check(c, a, f)
				}
			}
		}
		for _, a := range d.actRegs {
			if v, ok := st.Rw[a]; ok && v != NoW {
				for _, f := range d.regF[a] {
					check(c, a, f)
				}
			}
		}
	}
	// field heads reported by the API = maximal merged writes of that field
	for _, a := range append(append([]string{}, d.actCtrs...), d.actRegs...) {
		fs := d.ctrF[a]
		if fs == nil {
			fs = d.regF[a]
		}
		for _, f := range fs {
			data, err := n.Exec(d.ctx, fmt.Sprintf(`query { latestCommits(docID: %q, fieldName: %q) { cid } }`, ds.docID, f.Name))
			if err != nil {
				d.violate("C04", bi, si, "field-heads", "node %s latestCommits(%s): %v", n.Name, f.Name, err)
				continue
			}
			var got, want []string
			for _, r := range cluster.Rows(data, "latestCommits") {
				got = append(got, r["cid"].(string))
			}
			for _, c := range o.Fheads[a] {
				if fc, ok := ds.fcid[c][f.Name]; ok {
					want = append(want, fc.String())
				}
			}
			sort.Strings(got)
			sort.Strings(want)
			d.res.Comparisons++
			if strings.Join(got, ",") != strings.Join(want, ",") {
				d.violate("C04", bi, si, "field-heads", "node %s field %s: latest commits %v, want %v (abstract %v)", n.Name, f.Name, short(got), short(want), o.Fheads[a])
				if os.Getenv("VERIF_DEBUG") != "" {
					raw, _ := n.RawKeys(d.ctx, "/db/heads/d/"+ds.docID)
					for _, k := range cluster.SortedKeys(raw) {
						fmt.Fprintln(os.Stderr, "RAW", k, raw[k])
					}
					for _, g := range got {
						gc, _ := cid.Decode(g)
						blk, _, _ := n.GetBlock(d.ctx, gc)
						fmt.Fprintf(os.Stderr, "BLK %s field=%s prio=%d heads=%v\n", g, blk.Delta.GetFieldName(), blk.Delta.GetPriority(), blk.Heads)
					}
				}
			}
		}
	}
	// the commits query lists exactly the merged composite commits of the document
	data, err := n.Exec(d.ctx, fmt.Sprintf(`query { commits(docID: %q, fieldName: "_C") { cid height } }`, ds.docID))
	if err == nil {
		var got []string
		for _, r := range cluster.Rows(data, "commits") {
			got = append(got, r["cid"].(string))
		}
		sort.Strings(got)
		want := d.cidSet(ds, o.Mrg)
		d.res.Comparisons++
		if strings.Join(got, ",") != strings.Join(want, ",") {
			d.violate("C04", bi, si, "commits-query", "node %s: commits query lists %v, want the merged commits %v", n.Name, short(got), short(want))
		}
	}
}

// dagInvariants evaluates the specification's graph invariants directly on the block graph of the real node, for every
// block reachable from the document's heads (no id map needed): Closed (every parent and field link resolves),
// HeightRule (height = 1 + the greatest height among the parents; 1 for a block without parents) and RefHeads as an
// antichain condition (no reported head is an ancestor of another reported head).
func (d *Driver) dagInvariants(bi, si int, docID string, ni int) int {
	n := d.nodes[ni]
	hs, err := d.heads(n, docID)
	if err != nil || len(hs) == 0 {
		return 0
	}
	height := map[string]uint64{}
	var visit func(c cid.Cid, field bool) (uint64, bool)
	anc := map[string]map[string]bool{} // head -> composite ancestors
	var curHead string
	visit = func(c cid.Cid, field bool) (uint64, bool) {
		key := c.String()
		if !field && curHead != "" {
			anc[curHead][key] = true
		}
		if h, ok := height[key]; ok {
			return h, true
		}
		blk, _, err := n.GetBlock(d.ctx, c)
		if err != nil {
			d.violate("C04", bi, si, "closed", "node %s: block %s reachable from the heads of %s is not in the block store: %v", n.Name, c, docID, err)
			return 0, false
		}
		d.res.Comparisons++
		h := blk.Delta.GetPriority()
		height[key] = h
		var maxPar uint64
		for _, p := range blk.Heads {
			ph, ok := visit(p.Cid, field)
			if ok && ph > maxPar {
				maxPar = ph
			}
		}
		if h != maxPar+1 {
			d.violate("C04", bi, si, "height", "node %s: block %s has height %d but the greatest height among its %d parents is %d (want %d)", n.Name, c, h, len(blk.Heads), maxPar, maxPar+1)
		}
		if !field {
			for _, l := range blk.Links {
				visit(l.Cid, true)
			}
		}
		return h, true
	}
	for _, h := range hs {
		c, err := cid.Decode(h)
		if err != nil {
			continue
		}
		curHead = h
		anc[h] = map[string]bool{}
		visit(c, false)
	}
	// the walk memoises heights, so ancestors of a later head that were already visited are not re-entered: complete the
	// ancestor sets with a plain reachability pass
	for _, h := range hs {
		seen := map[string]bool{}
		var walk func(c cid.Cid)
		walk = func(c cid.Cid) {
			if seen[c.String()] {
				return
			}
			seen[c.String()] = true
			blk, _, err := n.GetBlock(d.ctx, c)
			if err != nil {
				return
			}
			for _, p := range blk.Heads {
				walk(p.Cid)
			}
		}
		c, _ := cid.Decode(h)
		walk(c)
		for _, o := range hs {
			if o != h && seen[o] {
				d.violate("C04", bi, si, "heads", "node %s: reported head %s of %s is an ancestor of reported head %s", n.Name, o, docID, h)
			}
		}
	}
	// the stored heads of every field: no stored head is an ancestor (in that field's block graph) of another one
	raw, err := n.RawKeys(d.ctx, "/db/heads/d/"+docID+"/")
	if err == nil {
		byField := map[string][]string{}
		for k := range raw {
			parts := strings.Split(strings.TrimPrefix(k, "/db/heads/d/"+docID+"/"), "/")
			if len(parts) == 2 {
				byField[parts[0]] = append(byField[parts[0]], parts[1])
			}
		}
		for field, heads := range byField {
			if len(heads) < 2 {
				continue
			}
			isHead := map[string]bool{}
			for _, h := range heads {
				isHead[h] = true
			}
			for _, h := range heads {
				seen := map[string]bool{}
				var walk func(c cid.Cid, top bool)
				walk = func(c cid.Cid, top bool) {
					if seen[c.String()] {
						return
					}
					seen[c.String()] = true
					if !top && isHead[c.String()] {
						d.violate("C04", bi, si, "field-heads-raw", "node %s: head store of field %s of %s holds %s, which is an ancestor of the stored head %s", n.Name, field, docID, c, h)
						return
					}
					blk, _, err := n.GetBlock(d.ctx, c)
					if err != nil {
						return
					}
					for _, p := range blk.Heads {
						walk(p.Cid, false)
					}
				}
				if c, err := cid.Decode(h); err == nil {
					walk(c, true)
				}
			}
		}
	}
	return len(height)
}

// DeepScenario builds two long diverged histories of one document (a and b updates on two nodes), exchanges them and
// writes on top of both: heights cross the one-byte / two-byte boundaries of their encoding. The specification's
// rules are evaluated on the resulting graphs (dagInvariants) and the counter must be the sum of all increments.
func (d *Driver) DeepScenario(bi, a, b int) {
	if len(d.nodes) < 2 || len(d.cfg.Ctrs) == 0 {
		return
	}
	d.serial++
	f := d.ctrF[d.cfg.Ctrs[0]][0]
	tag := fmt.Sprintf("deep-%d-%d-%d", d.cfg.Seed, d.serial, d.rng.Int63())
	n1, n2 := d.nodes[0], d.nodes[1]
	var docID string
	for _, n := range []*cluster.Node{n1, n2} {
		data, err := n.Exec(d.ctx, fmt.Sprintf(`mutation { create_Doc(input: {tag: %q, %s: 1}) { _docID } }`, tag, f.Name))
		if err != nil {
			d.herr("deep: create: %v", err)
			return
		}
		docID = cluster.Rows(data, "create_Doc")[0]["_docID"].(string)
	}
	upd := func(n *cluster.Node, k int) bool {
		for i := 0; i < k; i++ {
			if _, err := n.Exec(d.ctx, fmt.Sprintf(`mutation { update_Doc(docID: %q, input: {%s: 1}) { _docID } }`, docID, f.Name)); err != nil {
				d.violate("C02", bi, 0, "local-write-refused", "deep history: update %d on %s refused: %v", i, n.Name, err)
				return false
			}
		}
		return true
	}
	if !upd(n1, a) || !upd(n2, b) {
		return
	}
	headOf := func(n *cluster.Node) (cid.Cid, bool) {
		hs, err := d.heads(n, docID)
		if err != nil || len(hs) != 1 {
			d.violate("C04", bi, 0, "heads-after-local-write", "deep history: heads of %s after its local updates: %v %v (want exactly one)", n.Name, hs, err)
			return cid.Undef, false
		}
		c, _ := cid.Decode(hs[0])
		return c, true
	}
	h1, ok1 := headOf(n1)
	h2, ok2 := headOf(n2)
	if !ok1 || !ok2 {
		return
	}
	deliver := func(from, to *cluster.Node, c cid.Cid) bool {
		if _, err := cluster.CopyClosure(d.ctx, from, to, c); err != nil {
			d.herr("deep: copy: %v", err)
			return false
		}
		if err := to.Merge(d.ctx, d.colID, docID, c); err != nil {
			d.violate("C01", bi, 0, "merge-failed", "deep history: merge of %s's head into %s failed: %v", from.Name, to.Name, err)
			return false
		}
		return true
	}
	if !deliver(n2, n1, h2) || !deliver(n1, n2, h1) {
		return
	}
	if !upd(n1, 1) || !upd(n2, 1) {
		return
	}
	d.res.Behaviours++
	d.res.Steps += a + b + 6
	for ni := 0; ni < 2; ni++ {
		blocks := d.dagInvariants(bi, 0, docID, ni)
		if blocks < a+b {
			d.violate("C04", bi, 0, "closed", "deep history: only %d blocks reachable from the heads of %s, expected more than %d", blocks, d.nodes[ni].Name, a+b)
		}
		data, err := d.nodes[ni].Exec(d.ctx, fmt.Sprintf(`query { Doc(docID: %q) { %s } }`, docID, f.Name))
		if err != nil || len(cluster.Rows(data, "Doc")) != 1 {
			d.violate("C02", bi, 0, "counter", "deep history: document not readable on %s: %v", d.nodes[ni].Name, err)
			continue
		}
		got, _ := toFloat(cluster.Rows(data, "Doc")[0][f.Name])
		want := float64(1 + a + b + 1) // the shared creation + both histories + this node's own last update
		d.res.Comparisons++
		if got != want {
			d.violate("C02", bi, 0, "counter", "deep history (%d and %d updates): %s on %s = %v, want %v (each merged increment once)", a, b, f.Name, d.nodes[ni].Name, got, want)
		}
	}
}
