// Package cryptorun replays behaviours of spec/Crypto.tla (C11) and the signature case table (C12) on real nodes.
package cryptorun

import (
	"bytes"
	"context"
	"encoding/binary"
	"encoding/json"
	"fmt"
	"math"
	"sort"
	"strings"
	"time"

	"github.com/ipfs/boxo/blockservice"
	blocks "github.com/ipfs/go-block-format"
	"github.com/ipfs/go-cid"
	cidlink "github.com/ipld/go-ipld-prime/linking/cid"
	"github.com/sourcenetwork/immutable"

	"github.com/sourcenetwork/defradb/acp/identity"
	"github.com/sourcenetwork/defradb/client"
	"github.com/sourcenetwork/defradb/crypto"
	"github.com/sourcenetwork/defradb/event"
	coreblock "github.com/sourcenetwork/defradb/internal/core/block"
	"github.com/sourcenetwork/defradb/internal/datastore"
	"github.com/sourcenetwork/defradb/internal/encryption"
	"github.com/sourcenetwork/defradb/net"
	"github.com/sourcenetwork/defradb/verif/cluster"
)

// ---------------------------------------------------------------- C11

type HistStep struct {
	Op   string   `json:"op"`
	Mode string   `json:"mode"`
	Encf []string `json:"encf"`
	W    []string `json:"w"`
	Conc bool     `json:"conc"`
}
type BlockRec struct {
	F   string `json:"f"`
	Tok int    `json:"tok"`
	Enc bool   `json:"enc"`
}
type Behaviour struct {
	Hist   []HistStep `json:"hist"`
	Blocks []BlockRec `json:"blocks"`
	Mode   string     `json:"mode"`
	Encf   []string   `json:"encf"`
}

type Violation struct {
	Property string `json:"property"`
	Kind     string `json:"kind"`
	Msg      string `json:"msg"`
	Data     any    `json:"behaviour_data,omitempty"`
}

type Result struct {
	Behaviours  int         `json:"behaviours"`
	Writes      int         `json:"writes"`
	Scans       int         `json:"block_scans"`
	PlainFound  int         `json:"plain_tokens_found_as_expected"`
	PeerWrites  int         `json:"peer_writes_merged"`
	PeerRefused int         `json:"peer_writes_refused"`
	SigCases    int         `json:"signature_cases"`
	Verifs      int         `json:"verifications"`
	Violations  []Violation `json:"violations"`
	Errors      []string    `json:"harness_errors"`
}

const sdl = "type T {\n k: Int\n a: String\n b: Int\n c: Float\n}"

// the secret of a write: a value whose byte pattern is unique and recognisable in block bytes
func secretValue(f string, tok int) any {
	switch f {
	case "a":
		return fmt.Sprintf("SECRET-%04d-xyzzy", tok)
	case "b":
		return int64(7770000000 + tok)
	default:
		return float64(tok) + 0.123456789
	}
}

func patterns(f string, tok int) [][]byte {
	switch f {
	case "a":
		return [][]byte{[]byte(fmt.Sprintf("SECRET-%04d-xyzzy", tok))}
	case "b":
		b := make([]byte, 8)
		binary.BigEndian.PutUint64(b, uint64(7770000000+tok))
		return [][]byte{b}
	default:
		b := make([]byte, 8)
		binary.BigEndian.PutUint64(b, math.Float64bits(float64(tok)+0.123456789))
		return [][]byte{b}
	}
}

func covered(b *Behaviour, f string) bool {
	if b.Mode == "doc" {
		return true
	}
	if b.Mode == "fields" {
		for _, x := range b.Encf {
			if x == f {
				return true
			}
		}
	}
	return false
}

func coveredAny(b *Behaviour, fs []string) bool {
	for _, f := range fs {
		if covered(b, f) {
			return true
		}
	}
	return false
}

type Runner struct {
	Ctx    context.Context
	Res    *Result
	perSig map[string]int
}

func (r *Runner) violate(prop, kind string, data any, f string, a ...any) {
	// keep at most three instances per signature (kind + creation mode) so that one recurring finding does not
	// stop the exploration of the remaining behaviours
	msg := fmt.Sprintf(f, a...)
	sig := kind
	if b, ok := data.(*Behaviour); ok {
		sig += "|" + b.Mode
	}
	// the history class stated in the message distinguishes findings of one kind
	if i := strings.Index(msg, "; "); i >= 0 {
		if j := strings.Index(msg[i:], ")"); j >= 0 {
			sig += "|" + msg[i:i+j]
		}
	}
	if r.perSig == nil {
		r.perSig = map[string]int{}
	}
	r.perSig[sig]++
	if r.perSig[sig] > 3 {
		return
	}
	r.Res.Violations = append(r.Res.Violations, Violation{Property: prop, Kind: kind, Msg: msg, Data: data})
}

func scan(ctx context.Context, n *cluster.Node, prefix string, pats [][]byte) (bool, error) {
	kv, err := n.RawKeys(ctx, prefix)
	if err != nil {
		return false, err
	}
	for _, v := range kv {
		for _, p := range pats {
			if bytes.Contains(v, p) {
				return true, nil
			}
		}
	}
	return false, nil
}

// kms answers the key requests of a node: with the key blocks of the source node, or with nothing.
func kms(n, src *cluster.Node, withKeys bool) func() {
	sub, err := n.DB.Events().Subscribe(encryption.RequestKeysEventName)
	if err != nil {
		return func() {}
	}
	go func() {
		for m := range sub.Message() {
			req, ok := m.Data.(encryption.RequestKeysEvent)
			if !ok {
				continue
			}
			res := encryption.Result{}
			if withKeys {
				es := datastore.EncstoreFrom(src.Store)
				for _, l := range req.Keys {
					if b, err := es.Get(context.Background(), l.Cid); err == nil {
						res.Items = append(res.Items, encryption.Item{Link: l.Cid.Bytes(), Block: b.RawData()})
					}
				}
			}
			req.Resp <- res
		}
	}()
	return func() { n.DB.Events().Unsubscribe(sub) }
}

// ReplayEnc replays one C11 behaviour.
func (r *Runner) ReplayEnc(b *Behaviour) {
	ctx := r.Ctx
	r.Res.Behaviours++
	n, err := cluster.NewNode(ctx, "owner", cluster.Options{})
	if err != nil {
		r.Res.Errors = append(r.Res.Errors, err.Error())
		return
	}
	defer n.Close()
	if _, err := n.DB.AddSchema(ctx, sdl); err != nil {
		r.Res.Errors = append(r.Res.Errors, err.Error())
		return
	}
	// everything handed to the network layer
	var evBlocks [][]byte
	sub, _ := n.DB.Events().Subscribe(event.UpdateName)
	done := make(chan struct{})
	go func() {
		for m := range sub.Message() {
			if u, ok := m.Data.(event.Update); ok {
				evBlocks = append(evBlocks, u.Block)
			}
		}
		close(done)
	}()
	col, _ := n.DB.GetCollectionByName(ctx, "T")
	var doc *client.Document
	tok := 0
	current := map[string]any{}
	type written struct {
		f   string
		tok int
	}
	var all []written
	for sti, st := range b.Hist {
		fields := append([]string{}, st.W...)
		sort.Strings(fields) // the specification writes the fields of a step in this order (SeqOf is deterministic per set; tokens are matched by field below)
		switch st.Op {
		case "mode":
			continue
		case "create":
			m := map[string]any{"k": int64(1)}
			for _, f := range fields {
				tok++
				m[f] = secretValue(f, tok)
				current[f] = m[f]
				all = append(all, written{f, tok})
			}
			doc, err = client.NewDocFromMap(m, col.Definition())
			if err != nil {
				r.Res.Errors = append(r.Res.Errors, err.Error())
				return
			}
			var opts []client.DocCreateOption
			if b.Mode == "doc" {
				opts = append(opts, client.CreateDocEncrypted(true))
			} else if b.Mode == "fields" {
				// the set of encrypted fields is handed over as a list: its order is a choice of the caller
				list := append([]string{}, b.Encf...)
				sort.Strings(list)
				if r.Res.Behaviours%2 == 0 {
					for i, j := 0, len(list)-1; i < j; i, j = i+1, j-1 {
						list[i], list[j] = list[j], list[i]
					}
				}
				opts = append(opts, client.CreateDocWithEncryptedFields(list))
			}
			if err := col.Create(ctx, doc, opts...); err != nil {
				r.Res.Errors = append(r.Res.Errors, "create: "+err.Error())
				return
			}
		case "peerwrite":
			// a peer that holds no key receives the document, writes the field itself, and the owner merges that
			// write; with conc the owner updates the field on its own head first, so the field gets two heads
			f := fields[0]
			colsP, _ := n.DB.GetCollections(ctx, client.CollectionFetchOptions{})
			colIDP := colsP[0].Version().CollectionID
			headOf := func(x *cluster.Node) (cid.Cid, error) {
				h, err := x.Exec(ctx, fmt.Sprintf(`query { latestCommits(docID: %q) { cid } }`, doc.ID().String()))
				if err != nil || len(cluster.Rows(h, "latestCommits")) == 0 {
					return cid.Undef, fmt.Errorf("latestCommits on %s: %v (%d rows)", x.Name, err, len(cluster.Rows(h, "latestCommits")))
				}
				return cid.Decode(cluster.Rows(h, "latestCommits")[0]["cid"].(string))
			}
			pn, err := cluster.NewNode(ctx, "peer", cluster.Options{})
			if err != nil {
				r.Res.Errors = append(r.Res.Errors, err.Error())
				return
			}
			pn.DB.AddSchema(ctx, sdl)
			stopKms := kms(pn, n, false)
			oh, err := headOf(n)
			if err == nil {
				_, err = cluster.CopyClosure(ctx, n, pn, oh)
			}
			if err == nil {
				err = pn.Merge(ctx, colIDP, doc.ID().String(), oh)
			}
			if err != nil {
				stopKms()
				pn.Close()
				r.violate("C11", "receiver-merge", b, "key-less peer failed to merge the document: %v", err)
				return
			}
			pv := secretValue(f, 900000+tok) // the peer's own value: not a secret of the owner
			// through the collection API (Get, Set, Update): a GraphQL update finds no document on a peer that cannot
			// read all of its fields
			var werr error
			if pcol, err := pn.DB.GetCollectionByName(ctx, "T"); err != nil {
				werr = err
			} else if pdoc, err := pcol.Get(ctx, doc.ID(), false); err != nil {
				werr = err
			} else if err := pdoc.Set(f, pv); err != nil {
				werr = err
			} else {
				werr = pcol.Update(ctx, pdoc)
			}
			if werr != nil {
				// the peer cannot write the document: nothing to merge, the step is void
				stopKms()
				pn.Close()
				r.Res.PeerRefused++
				break
			}
			ph, err := headOf(pn)
			if err != nil {
				r.Res.Errors = append(r.Res.Errors, "after the peer write: "+err.Error())
				return
			}
			if st.Conc {
				tok++
				v := secretValue(f, tok)
				if err := doc.Set(f, v); err != nil {
					r.Res.Errors = append(r.Res.Errors, err.Error())
					return
				}
				current[f] = v
				all = append(all, written{f, tok})
				if err := col.Update(ctx, doc); err != nil {
					r.Res.Errors = append(r.Res.Errors, "update: "+err.Error())
					return
				}
			} else {
				delete(current, f) // the field now holds the peer's value
			}
			if _, err := cluster.CopyClosure(ctx, pn, n, ph); err != nil {
				r.Res.Errors = append(r.Res.Errors, err.Error())
				return
			}
			if err := n.Merge(ctx, colIDP, doc.ID().String(), ph); err != nil {
				r.violate("C11", "owner-merge", b, "the owner failed to merge the write of a key-less peer: %v", err)
				return
			}
			stopKms()
			pn.Close()
			r.Res.PeerWrites++
			if st.Conc {
				delete(current, f) // two heads: which value is current is not this property's business
			}
		case "update":
			for _, f := range fields {
				tok++
				v := secretValue(f, tok)
				if err := doc.Set(f, v); err != nil {
					r.Res.Errors = append(r.Res.Errors, err.Error())
					return
				}
				current[f] = v
				all = append(all, written{f, tok})
			}
			if err := col.Update(ctx, doc); err != nil {
				r.Res.Errors = append(r.Res.Errors, "update: "+err.Error())
				return
			}
		}
		r.Res.Writes += len(fields)
		// after every step: what is in the shared block store and in the notifications
		time.Sleep(2 * time.Millisecond)
		for _, w := range all {
			pats := patterns(w.f, w.tok)
			inStore, err := scan(ctx, n, "/db/blocks", pats)
			if err != nil {
				r.Res.Errors = append(r.Res.Errors, err.Error())
				return
			}
			inEvents := false
			for _, eb := range evBlocks {
				for _, p := range pats {
					if bytes.Contains(eb, p) {
						inEvents = true
					}
				}
			}
			r.Res.Scans++
			if covered(b, w.f) {
				if inStore || inEvents {
					where := "the block store shared with peers"
					if inEvents && !inStore {
						where = "an update notification"
					}
					atCreate, peerBefore := false, false
					for _, h := range b.Hist[:sti+1] {
						if h.Op == "create" {
							for _, x := range h.W {
								atCreate = atCreate || x == w.f
							}
						}
						if h.Op == "peerwrite" && len(h.W) == 1 && h.W[0] == w.f {
							peerBefore = true
						}
					}
					history := "field given a value at creation"
					if !atCreate {
						history = "field first written by an update"
					}
					if peerBefore {
						history += ", after a key-less peer wrote the field"
					} else {
						history += ", no peer write"
					}
					r.violate("C11", "plaintext:"+st.Op, b, "value #%d of encrypted field %s (mode %s %v, written by step %v; %s) is in clear in %s", w.tok, w.f, b.Mode, b.Encf, st, history, where)
					return
				}
			} else {
				if !inStore {
					r.violate("C11", "vacuity", b, "value #%d of unencrypted field %s was not found in the block store: the scan does not see field payloads", w.tok, w.f)
					return
				}
				r.Res.PlainFound++
			}
		}
	}
	if doc == nil {
		return
	}
	anyCovered := false
	for _, w := range all {
		anyCovered = anyCovered || covered(b, w.f)
	}
	if b.Mode == "doc" || (b.Mode == "fields" && anyCovered && len(b.Hist) > 1 && len(b.Hist[1].W) > 0 && coveredAny(b, b.Hist[1].W)) {
		if kv, _ := n.RawKeys(ctx, "/db/enc"); len(kv) == 0 {
			r.violate("C11", "no-key-store", b, "document created with mode %s but the key store is empty", b.Mode)
		}
	}
	// the key holder reads back exactly what was written
	r.readBack(n, doc.ID().String(), current, b, "the owner")
	// receivers: one that obtains the keys, one that does not
	head, err := n.Exec(ctx, fmt.Sprintf(`query { latestCommits(docID: %q) { cid } }`, doc.ID().String()))
	if err != nil || len(cluster.Rows(head, "latestCommits")) == 0 {
		r.Res.Errors = append(r.Res.Errors, fmt.Sprintf("latestCommits at the end: %v, hist %+v", err, b.Hist))
		return
	}
	var hcs []cid.Cid
	for _, row := range cluster.Rows(head, "latestCommits") {
		c, _ := cid.Decode(row["cid"].(string))
		hcs = append(hcs, c)
	}
	cols, _ := n.DB.GetCollections(ctx, client.CollectionFetchOptions{})
	colID := cols[0].Version().CollectionID
	for _, withKeys := range []bool{true, false} {
		rc, err := cluster.NewNode(ctx, "receiver", cluster.Options{})
		if err != nil {
			r.Res.Errors = append(r.Res.Errors, err.Error())
			return
		}
		rc.DB.AddSchema(ctx, sdl)
		stop := kms(rc, n, withKeys)
		for _, hc := range hcs {
			if _, err := cluster.CopyClosure(ctx, n, rc, hc); err != nil {
				r.Res.Errors = append(r.Res.Errors, err.Error())
			}
		}
		errc := make(chan error, 1)
		go func() {
			var err error
			for _, hc := range hcs {
				if e := rc.Merge(ctx, colID, doc.ID().String(), hc); e != nil {
					err = e
				}
			}
			errc <- err
		}()
		select {
		case err := <-errc:
			if err != nil {
				r.violate("C11", "receiver-merge", b, "receiver (keys=%v) failed to merge: %v", withKeys, err)
			}
		case <-time.After(15 * time.Second):
			r.violate("C11", "receiver-hang", b, "receiver (keys=%v) did not finish the merge", withKeys)
			stop()
			continue
		}
		stop()
		if withKeys {
			r.readBack(rc, doc.ID().String(), current, b, "a receiver holding the keys")
		} else {
			for _, w := range all {
				if !covered(b, w.f) {
					continue
				}
				for _, prefix := range []string{"/db/blocks", "/db/data"} {
					r.Res.Scans++
					if found, _ := scan(ctx, rc, prefix, patterns(w.f, w.tok)); found {
						r.violate("C11", "keyless-plaintext", b, "a receiver without the key stores value #%d of encrypted field %s in clear under %s", w.tok, w.f, prefix)
					}
				}
			}
		}
		rc.Close()
	}
	n.DB.Events().Unsubscribe(sub)
	<-done
}

func (r *Runner) readBack(n *cluster.Node, docID string, current map[string]any, b *Behaviour, who string) {
	d, err := n.Exec(r.Ctx, fmt.Sprintf(`query { T(docID: %q) { a b c } }`, docID))
	if err != nil || len(cluster.Rows(d, "T")) != 1 {
		r.violate("C11", "read-back", b, "%s cannot read the document back: %v", who, err)
		return
	}
	row := cluster.Rows(d, "T")[0]
	for f, want := range current {
		got := row[f]
		ok := false
		switch w := want.(type) {
		case string:
			ok = got == w
		case int64:
			if nmb, isN := got.(json.Number); isN {
				i, _ := nmb.Int64()
				ok = i == w
			}
		case float64:
			if nmb, isN := got.(json.Number); isN {
				x, _ := nmb.Float64()
				ok = x == w
			}
		}
		if !ok {
			r.violate("C11", "read-back", b, "%s reads %s = %v, written %v", who, f, got, want)
		}
	}
}

// ---------------------------------------------------------------- C12

type SigCase struct {
	Tamper   string `json:"tamper"`
	Pos      string `json:"pos"`
	Signer   string `json:"signer"`
	Verifier string `json:"verifier"`
	Verifies bool   `json:"verifies"`
	Accepted bool   `json:"accepted"`
}

// srcExchange serves the blocks of a source node (stands for bitswap).
type srcExchange struct{ src *cluster.Node }

func (e srcExchange) GetBlock(ctx context.Context, c cid.Cid) (blocks.Block, error) {
	return e.src.Blockstore().Get(ctx, c)
}
func (e srcExchange) GetBlocks(ctx context.Context, cs []cid.Cid) (<-chan blocks.Block, error) {
	ch := make(chan blocks.Block, len(cs))
	for _, c := range cs {
		if b, err := e.src.Blockstore().Get(ctx, c); err == nil {
			ch <- b
		}
	}
	close(ch)
	return ch, nil
}
func (e srcExchange) NotifyNewBlocks(ctx context.Context, bs ...blocks.Block) error { return nil }
func (e srcExchange) Close() error                                                  { return nil }

func dump(ctx context.Context, n *cluster.Node) string {
	var parts []string
	for _, p := range []string{"/db/data", "/db/heads"} {
		kv, _ := n.RawKeys(ctx, p)
		for _, k := range cluster.SortedKeys(kv) {
			parts = append(parts, k+"="+string(kv[k]))
		}
	}
	d, _ := n.Exec(ctx, `query { T(showDeleted: true) { _docID a b c } commits { cid } }`)
	jb, _ := json.Marshal(d)
	return strings.Join(parts, "\n") + string(jb)
}

// RunSig executes the signature case table for one key type.
func (r *Runner) RunSig(cases []SigCase, keyType crypto.KeyType) {
	ctx := r.Ctx
	keys := map[string]identity.FullIdentity{}
	for _, k := range []string{"k1", "k2"} {
		id, err := identity.Generate(keyType)
		if err != nil {
			r.Res.Errors = append(r.Res.Errors, err.Error())
			return
		}
		keys[k] = id
	}
	for _, c := range cases {
		r.Res.SigCases++
		author := keys[c.Signer]
		a, err := cluster.NewNode(ctx, "author", cluster.Options{Identity: immutable.Some[identity.Identity](author), Signing: true})
		if err != nil {
			r.Res.Errors = append(r.Res.Errors, err.Error())
			return
		}
		a.DB.AddSchema(ctx, sdl)
		d, err := a.Exec(ctx, `mutation { create_T(input: {k: 1, a: "x", b: 1}) { _docID } }`)
		if err != nil {
			r.Res.Errors = append(r.Res.Errors, err.Error())
			a.Close()
			return
		}
		docID := cluster.Rows(d, "create_T")[0]["_docID"].(string)
		a.Exec(ctx, fmt.Sprintf(`mutation { update_T(docID: %q, input: {a: "y", b: 2}) { _docID } }`, docID))
		a.Exec(ctx, fmt.Sprintf(`mutation { update_T(docID: %q, input: {a: "z", b: 3}) { _docID } }`, docID))
		// a second document only to have a foreign signature block for "sig-swapped"
		a.Exec(ctx, `mutation { create_T(input: {k: 2, a: "other"}) { _docID } }`)
		hd, _ := a.Exec(ctx, fmt.Sprintf(`query { latestCommits(docID: %q) { cid } }`, docID))
		hc, _ := cid.Decode(cluster.Rows(hd, "latestCommits")[0]["cid"].(string))
		blk, _, err := a.GetBlock(ctx, hc)
		if err != nil || blk.Signature == nil {
			r.violate("C12", "unsigned", c, "a commit written under a signing identity (%s) carries no signature (err %v)", keyType, err)
			a.Close()
			continue
		}
		// (a) verification API on the untampered commit
		if c.Tamper == "none" && c.Pos != "parent" {
			r.Res.Verifs++
			err := a.DB.VerifySignature(ctx, hc.String(), keys[c.Verifier].PublicKey())
			if (err == nil) != c.Verifies {
				r.violate("C12", "verify", c, "VerifySignature(commit signed by %s, key %s) = %v; the specification says verifies=%v", c.Signer, c.Verifier, err, c.Verifies)
			}
			// every composite commit and first field commits verify too
			all, _ := a.Exec(ctx, fmt.Sprintf(`query { commits(docID: %q) { cid height fieldName } }`, docID))
			for _, row := range cluster.Rows(all, "commits") {
				isComposite := row["fieldName"] == "_C"
				h, _ := row["height"].(json.Number).Int64()
				if !isComposite && h > 1 {
					continue // by design only composites and first field commits are signed
				}
				r.Res.Verifs++
				err := a.DB.VerifySignature(ctx, row["cid"].(string), keys[c.Verifier].PublicKey())
				if (err == nil) != c.Verifies {
					r.violate("C12", "verify", c, "VerifySignature(%v commit %v at height %d signed by %s, key %s) = %v; expected verifies=%v", row["fieldName"], row["cid"], h, c.Signer, c.Verifier, err, c.Verifies)
				}
			}
		}
		// (b) offer the (tampered) head to a receiver through the DAG sync of the network layer
		if c.Signer == c.Verifier {
			target := blk
			if c.Pos == "parent" {
				if len(blk.Heads) != 1 {
					r.Res.Errors = append(r.Res.Errors, "head without a single parent")
					a.Close()
					continue
				}
				pb, _, perr := a.GetBlock(ctx, blk.Heads[0].Cid)
				if perr != nil || pb.Signature == nil || len(pb.Heads) == 0 {
					r.Res.Errors = append(r.Res.Errors, fmt.Sprint("parent commit not usable: ", perr))
					a.Close()
					continue
				}
				target = pb
			}
			forged, err := tamper(ctx, a, target, c.Tamper, docID)
			if err != nil {
				r.Res.Errors = append(r.Res.Errors, "tamper "+c.Tamper+": "+err.Error())
				a.Close()
				continue
			}
			if c.Pos == "parent" {
				// the forged commit is stored where the receiver fetches from; what is pushed is an unsigned head on top of it
				raw, merr := forged.Marshal()
				if merr != nil {
					r.Res.Errors = append(r.Res.Errors, merr.Error())
					a.Close()
					continue
				}
				fc, perr := putRaw(ctx, a, raw)
				if perr != nil {
					r.Res.Errors = append(r.Res.Errors, perr.Error())
					a.Close()
					continue
				}
				child := blk.Clone()
				child.Links = append([]coreblock.DAGLink{}, blk.Links...)
				child.Heads = []cidlink.Link{{Cid: fc}}
				child.Signature = nil
				child.Delta.DocCompositeDelta.Priority = forged.Delta.DocCompositeDelta.Priority + 1
				forged = child
			}
			rc, _ := cluster.NewNode(ctx, "receiver", cluster.Options{})
			rc.DB.AddSchema(ctx, sdl)
			before := dump(ctx, rc)
			bserv := blockservice.New(rc.Blockstore(), srcExchange{a})
			type outcome struct {
				serr     error
				accepted bool
			}
			och := make(chan outcome, 1)
			go func() {
				o := outcome{}
				sctx, cancel := context.WithTimeout(ctx, 25*time.Second)
				defer cancel()
				o.serr = net.VerifSyncDAG(sctx, bserv, forged)
				o.accepted = o.serr == nil
				if o.accepted {
					link, _ := forged.GenerateLink()
					cols, _ := rc.DB.GetCollections(ctx, client.CollectionFetchOptions{})
					if merr := rc.Merge(ctx, cols[0].Version().CollectionID, docID, link.Cid); merr != nil {
						o.accepted = false
					}
				}
				och <- o
			}()
			var serr error
			accepted := false
			select {
			case o := <-och:
				serr, accepted = o.serr, o.accepted
			case <-time.After(40 * time.Second):
				r.violate("C12", "receiver-hang:"+c.Tamper+":"+c.Pos, c, "the receiver neither accepted nor refused a push whose %s carries tampering '%s' (%s key) within 40s", c.Pos, c.Tamper, keyType)
				a.Close()
				continue // the receiver is left behind: its goroutine is stuck
			}
			after := dump(ctx, rc)
			if accepted != c.Accepted {
				if accepted {
					r.violate("C12", "forged-accepted:"+c.Tamper+":"+c.Pos, c, "a commit with tampering '%s' (%s key; the tampered block is the %s of what was pushed) was accepted and merged by the receiver", c.Tamper, keyType, c.Pos)
				} else {
					r.violate("C12", "genuine-rejected:"+c.Tamper, c, "the receiver rejected a commit that should be accepted (tamper '%s'): %v", c.Tamper, serr)
				}
			}
			if !accepted && before != after {
				r.violate("C12", "rejected-but-changed:"+c.Tamper, c, "the receiver rejected the commit with tampering '%s' but its documents, history or heads changed", c.Tamper)
			}
			rc.Close()
		}
		a.Close()
	}
}

// tamper returns a copy of the signed block with one component altered (the signature link is kept).
func tamper(ctx context.Context, a *cluster.Node, orig *coreblock.Block, kind, docID string) (*coreblock.Block, error) {
	b := orig.Clone()
	heads := append([]cidlink.Link{}, orig.Heads...)
	links := append([]coreblock.DAGLink{}, orig.Links...)
	b.Heads, b.Links = heads, links
	d := b.Delta.DocCompositeDelta
	switch kind {
	case "none":
	case "delta-payload":
		// composite deltas carry the status as payload
		d.Status = client.Deleted
	case "priority":
		d.Priority += 7
	case "docID":
		d.DocID = []byte("bae-00000000-0000-0000-0000-000000000000")
	case "fieldName":
		// composites have no field name: retarget the first link's name instead
		if len(b.Links) > 0 {
			b.Links[0].Name = "zz"
		}
	case "schemaVersion":
		d.SchemaVersionID = d.SchemaVersionID + "x"
	case "heads":
		b.Heads = nil
	case "links":
		if len(b.Links) > 0 {
			b.Links = b.Links[:len(b.Links)-1]
		}
	case "enc-attached":
		// an encryption link the author never put there (it points at an existing block)
		l := cidlink.Link{Cid: orig.Signature.Cid}
		b.Encryption = &l
	case "sig-removed":
		b.Signature = nil
	case "sig-value", "sig-identity", "sig-type", "sig-swapped":
		sb, err := a.Blockstore().Get(ctx, orig.Signature.Cid)
		if err != nil {
			return nil, err
		}
		sig, err := coreblock.GetSignatureBlockFromBytes(sb.RawData())
		if err != nil {
			return nil, err
		}
		switch kind {
		case "sig-value":
			sig.Value = append([]byte{}, sig.Value...)
			sig.Value[len(sig.Value)/2] ^= 0x40
		case "sig-identity":
			other, _ := identity.Generate(crypto.KeyTypeSecp256k1)
			if sig.Header.Type == coreblock.SignatureTypeEd25519 {
				other, _ = identity.Generate(crypto.KeyTypeEd25519)
			}
			sig.Header.Identity = []byte(other.PublicKey().String())
		case "sig-type":
			if sig.Header.Type == coreblock.SignatureTypeEd25519 {
				sig.Header.Type = coreblock.SignatureTypeECDSA256K
			} else {
				sig.Header.Type = coreblock.SignatureTypeEd25519
			}
		case "sig-swapped":
			// the signature block of another signed commit
			all, _ := a.Exec(ctx, `query { commits(fieldName: "_C") { cid docID } }`)
			for _, row := range cluster.Rows(all, "commits") {
				if row["docID"] != docID {
					oc, _ := cid.Decode(row["cid"].(string))
					ob, _, err := a.GetBlock(ctx, oc)
					if err == nil && ob.Signature != nil {
						b.Signature = ob.Signature
						return b, nil
					}
				}
			}
			return nil, fmt.Errorf("no foreign signature block")
		}
		raw, err := sig.Marshal()
		if err != nil {
			return nil, err
		}
		// store the altered signature block on the author side so that the receiver can fetch it
		nb, err := putRaw(ctx, a, raw)
		if err != nil {
			return nil, err
		}
		l := cidlink.Link{Cid: nb}
		b.Signature = &l
	}
	return b, nil
}

func putRaw(ctx context.Context, n *cluster.Node, raw []byte) (cid.Cid, error) {
	c, err := coreblock.GetLinkPrototype().Prefix.Sum(raw)
	if err != nil {
		return cid.Cid{}, err
	}
	blk, err := blocks.NewBlockWithCid(raw, c)
	if err != nil {
		return cid.Cid{}, err
	}
	return c, n.Blockstore().Put(ctx, blk)
}
