// Package cluster runs real DefraDB nodes in-process for the model-based replay drivers.
package cluster

import (
	"context"
	"encoding/json"
	"errors"
	"fmt"
	"os"
	"runtime"
	"runtime/debug"
	"sort"
	"strings"
	"sync/atomic"
	"time"

	badgerds "github.com/dgraph-io/badger/v4"
	"github.com/ipfs/go-cid"
	"github.com/sourcenetwork/corekv"
	"github.com/sourcenetwork/corekv/badger"
	"github.com/sourcenetwork/immutable"

	"github.com/sourcenetwork/defradb/acp/dac"
	"github.com/sourcenetwork/defradb/acp/identity"
	"github.com/sourcenetwork/defradb/client"
	"github.com/sourcenetwork/defradb/event"
	coreblock "github.com/sourcenetwork/defradb/internal/core/block"
	"github.com/sourcenetwork/defradb/internal/datastore"
	"github.com/sourcenetwork/defradb/internal/db"
	"github.com/sourcenetwork/defradb/node"
)

// ExecTimeout bounds a single request; exceeding it is reported as a hang.
var ExecTimeout = 20 * time.Second

// ErrHang and ErrPanic classify requests that did not return normally.
var (
	ErrHang  = errors.New("request did not return (hang)")
	ErrPanic = errors.New("request panicked")
)

// Node is one real DefraDB instance on a badger in-memory store.
type Node struct {
	Name  string
	DB    *db.DB
	Store corekv.TxnStore
}

// Options configures a node.
type Options struct {
	Store       corekv.TxnStore // nil: fresh badger in-memory
	DocACP      bool            // local in-memory document ACP
	Identity    immutable.Option[identity.Identity]
	Signing     bool
	DBOptions   []db.Option
	DocACPStore immutable.Option[dac.DocumentACP]
}

// NewBadgerMem returns a badger in-memory store (the store the repository's integration suite uses).
func NewBadgerMem() (corekv.TxnStore, error) {
	return badger.NewDatastore("", badgerds.DefaultOptions("").WithInMemory(true).WithLoggingLevel(badgerds.ERROR))
}

// NewNode starts a node.
func NewNode(ctx context.Context, name string, o Options) (*Node, error) {
	store := o.Store
	if store == nil {
		var err error
		store, err = NewBadgerMem()
		if err != nil {
			return nil, err
		}
	}
	nac, err := db.NewNACInfo(ctx, "", false)
	if err != nil {
		return nil, err
	}
	docACP := dac.NoDocumentACP
	if o.DocACPStore.HasValue() {
		docACP = o.DocACPStore
	} else if o.DocACP {
		l, err := dac.NewLocalDocumentACP("")
		if err != nil {
			return nil, err
		}
		docACP = immutable.Some[dac.DocumentACP](l)
	}
	opts := append([]db.Option{}, o.DBOptions...)
	if o.Identity.HasValue() {
		opts = append(opts, db.WithNodeIdentity(o.Identity.Value()))
	}
	opts = append(opts, db.WithEnabledSigning(o.Signing))
	// a lens registry is needed to reopen an existing database (db.initialize reloads the lenses)
	lensReg, err := node.NewLens(ctx)
	if err != nil {
		return nil, err
	}
	d, err := db.NewDB(ctx, store, nac, docACP, lensReg, opts...)
	if err != nil {
		return nil, err
	}
	return &Node{Name: name, DB: d, Store: store}, nil
}

// Close stops the node (and closes its store).
func (n *Node) Close() { n.DB.Close() }

// Exec runs a GraphQL request and returns the data as generic JSON (map / slice / scalars).
func (n *Node) Exec(ctx context.Context, req string, opts ...client.RequestOption) (map[string]any, error) {
	type out struct {
		res *client.RequestResult
		pan any
	}
	ch := make(chan out, 1)
	go func() {
		defer func() {
			if r := recover(); r != nil {
				ch <- out{pan: fmt.Sprintf("%v\n%s", r, trimStack(debug.Stack()))}
			}
		}()
		ch <- out{res: n.DB.ExecRequest(ctx, req, opts...)}
	}()
	var res *client.RequestResult
	select {
	case o := <-ch:
		if o.pan != nil {
			return nil, fmt.Errorf("%w: %v", ErrPanic, o.pan)
		}
		res = o.res
	case <-time.After(ExecTimeout):
		return nil, fmt.Errorf("%w after %s: %s", ErrHang, ExecTimeout, req)
	}
	if len(res.GQL.Errors) > 0 {
		msgs := make([]string, 0, len(res.GQL.Errors))
		for _, e := range res.GQL.Errors {
			msgs = append(msgs, e.Error())
		}
		return nil, fmt.Errorf("gql: %s", strings.Join(msgs, "; "))
	}
	return Normalize(res.GQL.Data)
}

func trimStack(b []byte) string {
	lines := strings.Split(string(b), "\n")
	var keep []string
	for _, l := range lines {
		if strings.Contains(l, "/repo/") || strings.Contains(l, "defradb/internal") || strings.Contains(l, "defradb/client") {
			keep = append(keep, strings.TrimSpace(l))
		}
		if len(keep) > 16 {
			break
		}
	}
	return strings.Join(keep, " <- ")
}

// Normalize converts a GQL data value into plain JSON-shaped Go values.
func Normalize(data any) (map[string]any, error) {
	b, err := json.Marshal(data)
	if err != nil {
		return nil, err
	}
	var out map[string]any
	dec := json.NewDecoder(strings.NewReader(string(b)))
	dec.UseNumber()
	if err := dec.Decode(&out); err != nil {
		return nil, fmt.Errorf("normalize %s: %w", string(b), err)
	}
	return out, nil
}

// Rows extracts the list under key from an Exec result.
func Rows(data map[string]any, key string) []map[string]any {
	l, _ := data[key].([]any)
	out := make([]map[string]any, 0, len(l))
	for _, x := range l {
		if m, ok := x.(map[string]any); ok {
			out = append(out, m)
		}
	}
	return out
}

// Blockstore of the node (the store shared with peers).
func (n *Node) Blockstore() datastore.Blockstore { return datastore.BlockstoreFrom(n.Store) }

// GetBlock loads and decodes a block.
func (n *Node) GetBlock(ctx context.Context, c cid.Cid) (*coreblock.Block, []byte, error) {
	b, err := n.Blockstore().Get(ctx, c)
	if err != nil {
		return nil, nil, err
	}
	blk, err := coreblock.GetFromBytes(b.RawData())
	if err != nil {
		return nil, nil, err
	}
	return blk, b.RawData(), nil
}

// CopyClosure copies the block closure of c (heads, links, signature blocks) from node `from` to node `to`,
// which is what net/sync_dag.go does through the block service.
func CopyClosure(ctx context.Context, from, to *Node, c cid.Cid) (int, error) {
	seen := map[string]bool{}
	n := 0
	var walk func(c cid.Cid, raw bool) error
	walk = func(c cid.Cid, raw bool) error {
		if seen[c.KeyString()] {
			return nil
		}
		seen[c.KeyString()] = true
		b, err := from.Blockstore().Get(ctx, c)
		if err != nil {
			return fmt.Errorf("source lacks block %s: %w", c, err)
		}
		if err := to.Blockstore().Put(ctx, b); err != nil {
			return err
		}
		n++
		if raw {
			return nil
		}
		blk, err := coreblock.GetFromBytes(b.RawData())
		if err != nil {
			return err
		}
		if blk.Signature != nil {
			if err := walk(blk.Signature.Cid, true); err != nil {
				return err
			}
		}
		for _, l := range blk.AllLinks() {
			if err := walk(l.Cid, false); err != nil {
				return err
			}
		}
		return nil
	}
	return n, walk(c, false)
}

// Merge delivers commit c of document docID to the node through the synchronous merge hook.
func (n *Node) Merge(ctx context.Context, collectionID, docID string, c cid.Cid) (err error) {
	defer func() {
		if r := recover(); r != nil {
			err = fmt.Errorf("%w: merge: %v", ErrPanic, r)
		}
	}()
	return n.DB.VerifMerge(ctx, event.Merge{DocID: docID, Cid: c, CollectionID: collectionID})
}

// HeadCids scans the raw head store for the given prefix-less document/field and returns cid strings.
func (n *Node) RawKeys(ctx context.Context, prefix string) (map[string][]byte, error) {
	it, err := n.Store.Iterator(ctx, corekv.IterOptions{Prefix: []byte(prefix)})
	if err != nil {
		return nil, err
	}
	defer it.Close()
	out := map[string][]byte{}
	for {
		ok, err := it.Next()
		if err != nil {
			return nil, err
		}
		if !ok {
			break
		}
		v, err := it.Value()
		if err != nil {
			return nil, err
		}
		out[string(it.Key())] = append([]byte{}, v...)
	}
	return out, nil
}

// SortedKeys returns the sorted keys of a map.
func SortedKeys[V any](m map[string]V) []string {
	ks := make([]string, 0, len(m))
	for k := range m {
		ks = append(ks, k)
	}
	sort.Strings(ks)
	return ks
}

// Watchdog aborts a driver that makes no progress: if the counter does not change for limit, the stacks of the
// goroutines that are inside the repository or the harness are written to stderr and the process exits with code 4
// (an infrastructure failure for the caller, with the evidence needed to tell a deadlock of the real code from one of
// the harness).
func Watchdog(progress *atomic.Int64, limit time.Duration) {
	go func() {
		last, since := progress.Load(), time.Now()
		for {
			time.Sleep(5 * time.Second)
			if cur := progress.Load(); cur != last {
				last, since = cur, time.Now()
				continue
			}
			if time.Since(since) < limit {
				continue
			}
			buf := make([]byte, 1<<24)
			buf = buf[:runtime.Stack(buf, true)]
			fmt.Fprintf(os.Stderr, "WATCHDOG: no progress for %s at step %d; goroutines inside defradb / the harness:\n", limit, last)
			for _, g := range strings.Split(string(buf), "\n\n") {
				if strings.Contains(g, "sourcenetwork/defradb") && !strings.Contains(g, "cluster.Watchdog") {
					if len(g) > 1800 {
						g = g[:1800]
					}
					fmt.Fprintln(os.Stderr, g)
					fmt.Fprintln(os.Stderr)
				}
			}
			os.Exit(4)
		}
	}()
}
