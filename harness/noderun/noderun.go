// Package noderun replays behaviours of spec/NodeOps.tla on a real node that is really closed and reopened on its
// store at every Restart step, in lock-step with a twin that never restarts (C14), and compares both with the
// observation predicted by the specification (C19).
package noderun

import (
	"context"
	"encoding/json"
	"fmt"
	"github.com/ipfs/go-cid"
	"github.com/sourcenetwork/defradb/internal/db"
	"sort"
	"strings"

	"github.com/sourcenetwork/corekv"
	"github.com/sourcenetwork/immutable"
	"github.com/sourcenetwork/lens/host-go/config/model"

	"github.com/sourcenetwork/defradb/client"
	"github.com/sourcenetwork/defradb/verif/cluster"
)

type Obs struct {
	Rows    [][]json.RawMessage `json:"rows"`
	Deleted []int               `json:"deleted"`
	Fields  []int               `json:"fields"`
	Nver    int                 `json:"nver"`
	Active  int                 `json:"active"`
	Indexes []int               `json:"indexes"`
	Commits json.RawMessage     `json:"commits"`
}

type Step struct {
	Op  string `json:"op"`
	D   int    `json:"d"`
	F   int    `json:"f"`
	V   int    `json:"v"`
	K   int    `json:"k"`
	Obs Obs    `json:"obs"`
}

type Violation struct {
	Property string `json:"property"`
	Kind     string `json:"kind"`
	Step     int    `json:"step"`
	Msg      string `json:"msg"`
	Data     []Step `json:"behaviour_data,omitempty"`
}

type Result struct {
	Behaviours int            `json:"behaviours"`
	Steps      int            `json:"steps"`
	Restarts   int            `json:"restarts"`
	ByOp       map[string]int `json:"by_op"`
	Compared   int            `json:"comparisons"`
	Violations []Violation    `json:"violations"`
	Errors     []string       `json:"harness_errors"`
}

// keepOpen wraps a store so that closing the node does not destroy the (in-memory) store.
type keepOpen struct{ corekv.TxnStore }

func (keepOpen) Close() error { return nil }

type inst struct {
	n        *cluster.Node
	store    corekv.TxnStore
	versions []string // version ids in creation order
	docIDs   map[int]string
}

type Runner struct {
	Ctx context.Context
	Res *Result
	cur []Step
}

func (r *Runner) violate(prop, kind string, si int, f string, a ...any) {
	v := Violation{Property: prop, Kind: kind, Step: si, Msg: fmt.Sprintf(f, a...)}
	if len(r.Res.Violations) == 0 || r.Res.Violations[len(r.Res.Violations)-1].Data == nil {
		v.Data = r.cur
	}
	r.Res.Violations = append(r.Res.Violations, v)
}

func (r *Runner) open(store corekv.TxnStore) (*cluster.Node, error) {
	return cluster.NewNode(r.Ctx, "n", cluster.Options{Store: keepOpen{store}})
}

func (r *Runner) newInst() (*inst, error) {
	s, err := cluster.NewBadgerMem()
	if err != nil {
		return nil, err
	}
	n, err := r.open(s)
	if err != nil {
		return nil, err
	}
	cols, err := n.DB.AddSchema(r.Ctx, "type T {\n k: Int\n f1: Int\n}")
	if err != nil {
		return nil, err
	}
	return &inst{n: n, store: s, versions: []string{cols[0].VersionID}, docIDs: map[int]string{}}, nil
}

func (r *Runner) apply(in *inst, st *Step) error {
	ctx := r.Ctx
	switch st.Op {
	case "create":
		d, err := in.n.Exec(ctx, fmt.Sprintf(`mutation { create_T(input: {k: %d, f1: %d}) { _docID } }`, st.D, st.V))
		if err != nil {
			return err
		}
		in.docIDs[st.D] = cluster.Rows(d, "create_T")[0]["_docID"].(string)
	case "update":
		_, err := in.n.Exec(ctx, fmt.Sprintf(`mutation { update_T(docID: %q, input: {f%d: %d}) { _docID } }`, in.docIDs[st.D], st.F, st.V))
		return err
	case "delete":
		_, err := in.n.Exec(ctx, fmt.Sprintf(`mutation { delete_T(docID: %q) { _docID } }`, in.docIDs[st.D]))
		return err
	case "patch":
		next := len(in.versions) + 1
		patch := fmt.Sprintf(`[{"op": "add", "path": "/T/Fields/-", "value": {"Name": "f%d", "Kind": "Int"}}]`, next)
		if st.F == 1 {
			// the retry loop: a first attempt in a transaction that is discarded, the second one in a new transaction whose
			// context is derived from the first attempt's context, committed
			txn1, err := in.n.DB.NewTxn(ctx, false)
			if err != nil {
				return err
			}
			ctx1 := db.InitContext(ctx, txn1)
			if err := in.n.DB.PatchSchema(ctx1, patch, immutable.None[model.Lens](), st.K == 1); err != nil {
				txn1.Discard(ctx)
				return err
			}
			txn1.Discard(ctx)
			txn2, err := in.n.DB.NewTxn(ctx1, false)
			if err != nil {
				return err
			}
			ctx2 := db.InitContext(ctx1, txn2)
			if err := in.n.DB.PatchSchema(ctx2, patch, immutable.None[model.Lens](), st.K == 1); err != nil {
				txn2.Discard(ctx)
				return err
			}
			if err := txn2.Commit(ctx); err != nil {
				return err
			}
		} else if err := in.n.DB.PatchSchema(ctx, patch, immutable.None[model.Lens](), st.K == 1); err != nil {
			return err
		}
		cols, err := in.n.DB.GetCollections(ctx, client.CollectionFetchOptions{IncludeInactive: immutable.Some(true)})
		if err != nil {
			return err
		}
		known := map[string]bool{}
		for _, v := range in.versions {
			known[v] = true
		}
		for _, c := range cols {
			if c.Name() == "T" && !known[c.VersionID()] {
				in.versions = append(in.versions, c.VersionID())
			}
		}
		if len(in.versions) != next {
			return fmt.Errorf("patch produced %d versions, expected %d", len(in.versions), next)
		}
	case "discardedpatch":
		// the same kind of patch inside an explicit transaction that is discarded: nothing may remain of it
		txn, err := in.n.DB.NewTxn(ctx, false)
		if err != nil {
			return err
		}
		tctx := db.InitContext(ctx, txn)
		patch := fmt.Sprintf(`[{"op": "add", "path": "/T/Fields/-", "value": {"Name": "f%d", "Kind": "Int"}}]`, len(in.versions)+1)
		perr := in.n.DB.PatchSchema(tctx, patch, immutable.None[model.Lens](), true)
		txn.Discard(ctx)
		return perr
	case "setactive":
		return in.n.DB.SetActiveSchemaVersion(ctx, in.versions[st.K-1])
	case "indexcreate":
		col, err := in.n.DB.GetCollectionByName(ctx, "T")
		if err != nil {
			return err
		}
		_, err = col.CreateIndex(ctx, client.IndexCreateRequest{Name: "f1_idx", Fields: []client.IndexedFieldDescription{{Name: "f1"}}})
		return err
	case "indexdrop":
		col, err := in.n.DB.GetCollectionByName(ctx, "T")
		if err != nil {
			return err
		}
		return col.DropIndex(ctx, "f1_idx")
	}
	return nil
}

// dump is the full logical view used to compare the restarted node with its twin.
func (r *Runner) dump(in *inst, fields []int) (string, error) {
	ctx := r.Ctx
	out := map[string]any{}
	cols, err := in.n.DB.GetCollections(ctx, client.CollectionFetchOptions{IncludeInactive: immutable.Some(true)})
	if err != nil {
		return "", fmt.Errorf("GetCollections: %w", err)
	}
	var cd []string
	for _, c := range cols {
		idx, err := c.GetIndexes(ctx)
		if err != nil {
			return "", err
		}
		v := c.Version()
		var fs []string
		for _, f := range c.Definition().GetFields() {
			fs = append(fs, fmt.Sprintf("%s:%v", f.Name, f.Kind))
		}
		cd = append(cd, fmt.Sprintf("%s version=%s col=%s active=%v fields=%v indexes=%v", c.Name(), v.VersionID, v.CollectionID, v.IsActive, fs, idx))
	}
	sort.Strings(cd)
	out["collections"] = cd
	sel := "_docID _deleted k"
	for _, f := range fields {
		sel += fmt.Sprintf(" f%d", f)
	}
	d, err := in.n.Exec(ctx, fmt.Sprintf(`query { T(showDeleted: true, order: {k: ASC}) { %s } }`, sel))
	if err != nil {
		return "", fmt.Errorf("query: %w", err)
	}
	out["docs"] = d
	d, err = in.n.Exec(ctx, `query { T(filter: {f1: {_ge: 0}}, order: {k: ASC}) { k f1 } }`)
	if err != nil {
		return "", fmt.Errorf("indexed query: %w", err)
	}
	out["byf1"] = d
	d, err = in.n.Exec(ctx, `query { commits(order: {cid: ASC}) { cid docID height fieldName schemaVersionId } }`)
	if err != nil {
		return "", fmt.Errorf("commits: %w", err)
	}
	out["commits"] = d
	// the GraphQL type system the running node answers with
	d, err = in.n.Exec(ctx, `query { __type(name: "T") { fields { name } } }`)
	if err != nil {
		return "", fmt.Errorf("introspection: %w", err)
	}
	out["gqltype"] = d
	b, _ := json.Marshal(out)
	return string(b), nil
}

func intOf(raw json.RawMessage) int {
	var i int
	json.Unmarshal(raw, &i)
	return i
}

// Replay runs one behaviour.
func (r *Runner) Replay(steps []Step) {
	r.cur = steps
	r.Res.Behaviours++
	main, err := r.newInst()
	if err != nil {
		r.Res.Errors = append(r.Res.Errors, err.Error())
		return
	}
	twin, err := r.newInst()
	if err != nil {
		r.Res.Errors = append(r.Res.Errors, err.Error())
		return
	}
	// a third node with the same history: the origin of the updates that reach the others through the merge path
	src, err := r.newInst()
	if err != nil {
		r.Res.Errors = append(r.Res.Errors, err.Error())
		return
	}
	defer func() { main.n.Close(); twin.n.Close(); src.n.Close() }()
	for si := range steps {
		st := &steps[si]
		r.Res.Steps++
		r.Res.ByOp[st.Op]++
		if st.Op == "restart" {
			r.Res.Restarts++
			main.n.Close()
			n, err := r.open(main.store)
			if err != nil {
				r.violate("C14", "reopen-failed", si, "the node could not be reopened on its store: %v", err)
				return
			}
			main.n = n
		} else if st.Op == "remoteupdate" {
			up := *st
			up.Op = "update"
			if err := r.apply(src, &up); err != nil {
				r.violate("C19", "op-refused:update", si, "update (d=%d f=%d v=%d) on the origin node was refused: %v", st.D, st.F, st.V, err)
				return
			}
			hd, err := src.n.Exec(r.Ctx, fmt.Sprintf(`query { latestCommits(docID: %q) { cid } }`, src.docIDs[st.D]))
			if err != nil || len(cluster.Rows(hd, "latestCommits")) != 1 {
				r.Res.Errors = append(r.Res.Errors, fmt.Sprint("origin heads: ", err))
				return
			}
			hc, _ := cid.Decode(cluster.Rows(hd, "latestCommits")[0]["cid"].(string))
			for _, in := range []*inst{main, twin} {
				if _, err := cluster.CopyClosure(r.Ctx, src.n, in.n, hc); err != nil {
					r.Res.Errors = append(r.Res.Errors, err.Error())
					return
				}
				col, err := in.n.DB.GetCollectionByName(r.Ctx, "T")
				if err != nil {
					r.Res.Errors = append(r.Res.Errors, err.Error())
					return
				}
				if err := in.n.Merge(r.Ctx, col.Version().CollectionID, in.docIDs[st.D], hc); err != nil {
					r.violate("C19", "merge-refused", si, "the update of field f%d made on a node with the same schema history could not be merged: %v", st.F, err)
					return
				}
			}
		} else {
			e1 := r.apply(main, st)
			e2 := r.apply(twin, st)
			if e3 := r.apply(src, st); (e3 == nil) != (e1 == nil) {
				r.violate("C14", "behaves-differently", si, "%s: the node returned %v, the origin node with the same history %v", st.Op, e1, e3)
				return
			}
			if (e1 == nil) != (e2 == nil) {
				r.violate("C14", "behaves-differently", si, "%s: the restarted node returned %v, its never-restarted twin %v", st.Op, e1, e2)
				return
			}
			if e1 != nil {
				// the specification enables exactly the operations that must succeed
				prop := "C19"
				r.violate(prop, "op-refused:"+st.Op, si, "%s (d=%d f=%d v=%d k=%d) was refused: %v", st.Op, st.D, st.F, st.V, st.K, e1)
				return
			}
		}
		// C14: indistinguishable from the twin
		dm, err1 := r.dump(main, st.Obs.Fields)
		dt, err2 := r.dump(twin, st.Obs.Fields)
		r.Res.Compared++
		if err1 != nil || err2 != nil {
			if (err1 == nil) != (err2 == nil) {
				r.violate("C14", "dump-differs", si, "after %s the restarted node answers %v, its twin %v", st.Op, err1, err2)
			} else {
				r.violate("C19", "unreadable", si, "after %s the data can not be read: %v", st.Op, err1)
			}
			return
		}
		if dm != dt {
			r.violate("C14", "dump-differs", si, "after %s the restarted node differs from its never-restarted twin in [%s]", st.Op, diffKeys(dm, dt))
			return
		}
		// C19 (and the abstract part of C14): the specification's observation
		r.compareObs(main, st, si)
		if len(r.Res.Violations) > 10 {
			return
		}
	}
}

func diffKeys(a, b string) string {
	var ma, mb map[string]json.RawMessage
	json.Unmarshal([]byte(a), &ma)
	json.Unmarshal([]byte(b), &mb)
	var ks []string
	for k := range ma {
		if string(ma[k]) != string(mb[k]) {
			ks = append(ks, k+": "+trunc(string(ma[k]), 300)+"  VS  "+trunc(string(mb[k]), 300))
		}
	}
	sort.Strings(ks)
	return strings.Join(ks, " ; ")
}

func trunc(s string, n int) string {
	if len(s) > n {
		return s[:n] + "..."
	}
	return s
}

func (r *Runner) compareObs(in *inst, st *Step, si int) {
	ctx := r.Ctx
	sel := "k"
	for _, f := range st.Obs.Fields {
		sel += fmt.Sprintf(" f%d", f)
	}
	d, err := in.n.Exec(ctx, fmt.Sprintf(`query { T(order: {k: ASC}) { %s } }`, sel))
	if err != nil {
		r.violate("C19", "unreadable", si, "after %s a query of the fields of the active version fails: %v", st.Op, err)
		return
	}
	want := map[int][]int{}
	for _, row := range st.Obs.Rows {
		var vals []int
		json.Unmarshal(row[1], &vals)
		want[intOf(row[0])] = vals
	}
	got := map[int][]int{}
	for _, row := range cluster.Rows(d, "T") {
		kn, okk := row["k"].(json.Number)
		if !okk {
			r.violate("C19", "values", si, "after %s a document reads k = %v (%T), not an integer: %v", st.Op, row["k"], row["k"], row)
			return
		}
		k, _ := kn.Int64()
		var vals []int
		for _, f := range st.Obs.Fields {
			x := row[fmt.Sprintf("f%d", f)]
			if x == nil {
				vals = append(vals, -1)
			} else {
				xn, okx := x.(json.Number)
				if !okx {
					r.violate("C19", "values", si, "after %s document k=%d reads f%d = %v (%T), not an integer", st.Op, k, f, x, x)
					return
				}
				i, _ := xn.Int64()
				vals = append(vals, int(i))
			}
		}
		got[int(k)] = vals
	}
	r.Res.Compared++
	if fmt.Sprint(got) != fmt.Sprint(want) {
		r.violate("C19", "values", si, "after %s (active version %d of %d) the documents read %v, the specification says %v (k -> values of the fields %v, -1 = null)", st.Op, st.Obs.Active, st.Obs.Nver, got, want, st.Obs.Fields)
	}
	// a field the active version does not know must not be queryable, and the GraphQL type lists exactly the known ones
	known := map[int]bool{}
	for _, f := range st.Obs.Fields {
		known[f] = true
	}
	for f := 1; f <= st.Obs.Nver+1; f++ {
		if known[f] {
			continue
		}
		if _, err := in.n.Exec(ctx, fmt.Sprintf(`query { T { f%d } }`, f)); err == nil {
			r.violate("C19", "stale-type", si, "field f%d, which the active version %d does not know (known: %v), is queryable", f, st.Obs.Active, st.Obs.Fields)
		}
	}
	if td, err := in.n.Exec(ctx, `query { __type(name: "T") { fields { name } } }`); err == nil {
		var got []int
		if t, ok := td["__type"].(map[string]any); ok {
			fl, _ := t["fields"].([]any)
			for _, x := range fl {
				if m, ok := x.(map[string]any); ok {
					var f int
					if n, _ := fmt.Sscanf(fmt.Sprint(m["name"]), "f%d", &f); n == 1 {
						got = append(got, f)
					}
				}
			}
		}
		sort.Ints(got)
		if fmt.Sprint(got) != fmt.Sprint(st.Obs.Fields) {
			// after a discarded schema transaction the running node's type system is ahead of its store: exactly what a
			// restart would undo (C14); otherwise it is the schema operation itself that is wrong (C19)
			prop := "C19"
			for _, e := range r.cur[:si+1] {
				if e.Op == "discardedpatch" {
					prop = "C14"
				}
			}
			r.violate(prop, "gql-type", si, "after %s the GraphQL type T of the running node has the fields f%v, the active version %d knows f%v", st.Op, got, st.Obs.Active, st.Obs.Fields)
		}
	}
	// commit history length per document is unchanged by schema operations
	var commits map[string]int
	if err := json.Unmarshal(st.Obs.Commits, &commits); err != nil {
		var arr []int
		json.Unmarshal(st.Obs.Commits, &arr)
		commits = map[string]int{}
		for i, c := range arr {
			commits[fmt.Sprint(i+1)] = c
		}
	}
	for ds, c := range commits {
		var dn int
		fmt.Sscan(ds, &dn)
		id, ok := in.docIDs[dn]
		if !ok {
			continue
		}
		d, err := in.n.Exec(ctx, fmt.Sprintf(`query { commits(docID: %q, fieldName: "_C") { cid } }`, id))
		if err != nil {
			r.violate("C19", "history", si, "commit history of document %d unreadable after %s: %v", dn, st.Op, err)
			continue
		}
		if n := len(cluster.Rows(d, "commits")); n != c {
			r.violate("C19", "history", si, "document %d has %d document-level commits after %s, expected %d", dn, n, st.Op, c)
		}
	}
}
