module github.com/sourcenetwork/defradb/verif

go 1.23.8

require github.com/sourcenetwork/defradb v0.0.0

require (
	github.com/bits-and-blooms/bitset v1.22.0
	github.com/bxcodec/faker v2.0.1+incompatible
	github.com/cosmos/cosmos-sdk v0.50.14
	github.com/cosmos/gogoproto v1.7.0
	github.com/decred/dcrd/dcrec/secp256k1/v4 v4.4.0
	github.com/dgraph-io/badger/v4 v4.7.0
	github.com/evanphx/json-patch/v5 v5.9.11
	github.com/fxamacker/cbor/v2 v2.9.0
	github.com/getkin/kin-openapi v0.132.0
	github.com/go-chi/chi/v5 v5.2.2
	github.com/go-chi/cors v1.2.1
	github.com/go-errors/errors v1.5.1
	github.com/gofrs/uuid/v5 v5.3.2
	github.com/google/uuid v1.6.0
	github.com/iancoleman/strcase v0.3.0
	github.com/ipfs/boxo v0.30.0
	github.com/ipfs/go-block-format v0.2.1
	github.com/ipfs/go-cid v0.5.0
	github.com/ipfs/go-datastore v0.8.2
	github.com/ipfs/go-ipld-format v0.6.1
	github.com/ipld/go-ipld-prime v0.21.0
	github.com/ipld/go-ipld-prime/storage/bsadapter v0.0.0-20240322071758-198d7dba8fb8
	github.com/ipld/go-ipld-prime/storage/bsrvadapter v0.0.0-20240322071758-198d7dba8fb8
	github.com/joho/godotenv v1.5.1
	github.com/lestrrat-go/jwx/v2 v2.1.6
	github.com/libp2p/go-libp2p v0.41.1
	github.com/libp2p/go-libp2p-gostream v0.6.0
	github.com/libp2p/go-libp2p-kad-dht v0.33.1
	github.com/libp2p/go-libp2p-pubsub v0.14.2
	github.com/libp2p/go-libp2p-record v0.3.1
	github.com/mr-tron/base58 v1.2.0
	github.com/multiformats/go-multiaddr v0.15.0
	github.com/multiformats/go-multibase v0.2.0
	github.com/multiformats/go-multicodec v0.9.1
	github.com/multiformats/go-multihash v0.2.3
	github.com/multiformats/go-varint v0.0.7
	github.com/onsi/gomega v1.37.0
	github.com/pelletier/go-toml v1.9.5
	github.com/philippgille/chromem-go v0.7.0
	github.com/pkg/errors v0.9.1
	github.com/sourcenetwork/acp_core v0.4.1
	github.com/sourcenetwork/corekv v0.1.2
	github.com/sourcenetwork/corelog v0.0.8
	github.com/sourcenetwork/go-libp2p-pubsub-rpc v0.0.14
	github.com/sourcenetwork/goji v0.0.8
	github.com/sourcenetwork/graphql-go v0.7.10-0.20241003221550-224346887b4a
	github.com/sourcenetwork/immutable v0.3.0
	github.com/sourcenetwork/lens/host-go v0.0.0-20250801172620-185c0b250e1a
	github.com/sourcenetwork/sourcehub v0.2.1-0.20250310083845-94a8142548bf
	github.com/sourcenetwork/testo v0.1.0
	github.com/spf13/cobra v1.9.1
	github.com/spf13/pflag v1.0.6
	github.com/spf13/viper v1.20.1
	github.com/stretchr/testify v1.10.0
	github.com/valyala/fastjson v1.6.4
	github.com/vito/go-sse v1.1.2
	github.com/zalando/go-keyring v0.2.6
	go.opentelemetry.io/contrib/instrumentation/runtime v0.60.0
	go.opentelemetry.io/otel v1.37.0
	go.opentelemetry.io/otel/exporters/otlp/otlpmetric/otlpmetrichttp v1.37.0
	go.opentelemetry.io/otel/exporters/otlp/otlptrace/otlptracehttp v1.37.0
	go.opentelemetry.io/otel/sdk v1.37.0
	go.opentelemetry.io/otel/sdk/metric v1.37.0
	go.opentelemetry.io/otel/trace v1.37.0
	golang.org/x/crypto v0.39.0
	golang.org/x/exp v0.0.0-20250506013437-ce4c2cf36ca6
	google.golang.org/grpc v1.73.0
)

require (
	al.essio.dev/pkg/shellescape v1.5.1 // indirect
	buf.build/gen/go/bufbuild/protovalidate/protocolbuffers/go v1.36.3-20241127180247-a33202765966.1 // indirect
	cel.dev/expr v0.23.0 // indirect
	cloud.google.com/go v0.116.0 // indirect
	cloud.google.com/go/auth v0.13.0 // indirect
	cloud.google.com/go/auth/oauth2adapt v0.2.6 // indirect
	cloud.google.com/go/compute/metadata v0.6.0 // indirect
	cloud.google.com/go/iam v1.2.2 // indirect
	cloud.google.com/go/monitoring v1.21.2 // indirect
	cloud.google.com/go/storage v1.49.0 // indirect
	cosmossdk.io/api v0.7.6 // indirect
	cosmossdk.io/collections v0.4.0 // indirect
	cosmossdk.io/core v0.11.1 // indirect
	cosmossdk.io/depinject v1.1.0 // indirect
	cosmossdk.io/errors v1.0.1 // indirect
	cosmossdk.io/log v1.5.0 // indirect
	cosmossdk.io/math v1.5.0 // indirect
	cosmossdk.io/store v1.1.1 // indirect
	cosmossdk.io/x/circuit v0.1.1 // indirect
	cosmossdk.io/x/evidence v0.1.1 // indirect
	cosmossdk.io/x/feegrant v0.1.1 // indirect
	cosmossdk.io/x/tx v0.13.7 // indirect
	cosmossdk.io/x/upgrade v0.1.4 // indirect
	filippo.io/edwards25519 v1.1.0 // indirect
	github.com/99designs/go-keychain v0.0.0-20191008050251-8e49817e8af4 // indirect
	github.com/99designs/keyring v1.2.2 // indirect
	github.com/DataDog/datadog-go v4.8.3+incompatible // indirect
	github.com/DataDog/zstd v1.5.5 // indirect
	github.com/GoogleCloudPlatform/opentelemetry-operations-go/detectors/gcp v1.27.0 // indirect
	github.com/GoogleCloudPlatform/opentelemetry-operations-go/exporter/metric v0.48.1 // indirect
	github.com/GoogleCloudPlatform/opentelemetry-operations-go/internal/resourcemapping v0.48.1 // indirect
	github.com/Jorropo/jsync v1.0.1 // indirect
	github.com/Microsoft/go-winio v0.6.2 // indirect
	github.com/NathanBaulch/protoc-gen-cobra v1.2.1 // indirect
	github.com/TBD54566975/ssi-sdk v0.0.4-alpha // indirect
	github.com/antlr4-go/antlr/v4 v4.13.1 // indirect
	github.com/awalterschulze/gographviz v2.0.3+incompatible // indirect
	github.com/aws/aws-sdk-go v1.44.224 // indirect
	github.com/benbjohnson/clock v1.3.5 // indirect
	github.com/beorn7/perks v1.0.1 // indirect
	github.com/bgentry/go-netrc v0.0.0-20140422174119-9fd32a8b3d3d // indirect
	github.com/bgentry/speakeasy v0.2.0 // indirect
	github.com/blang/semver/v4 v4.0.0 // indirect
	github.com/btcsuite/btcd/btcec/v2 v2.3.4 // indirect
	github.com/bytecodealliance/wasmtime-go/v35 v35.0.0 // indirect
	github.com/bytedance/sonic v1.12.3 // indirect
	github.com/bytedance/sonic/loader v0.2.0 // indirect
	github.com/cenkalti/backoff v2.2.1+incompatible // indirect
	github.com/cenkalti/backoff/v4 v4.3.0 // indirect
	github.com/cenkalti/backoff/v5 v5.0.2 // indirect
	github.com/cespare/xxhash/v2 v2.3.0 // indirect
	github.com/chzyer/readline v1.5.1 // indirect
	github.com/cloudflare/circl v1.3.7 // indirect
	github.com/cloudwego/base64x v0.1.4 // indirect
	github.com/cloudwego/iasm v0.2.0 // indirect
	github.com/cncf/xds/go v0.0.0-20250326154945-ae57f3c0d45f // indirect
	github.com/cockroachdb/apd/v2 v2.0.2 // indirect
	github.com/cockroachdb/apd/v3 v3.2.1 // indirect
	github.com/cockroachdb/errors v1.11.3 // indirect
	github.com/cockroachdb/fifo v0.0.0-20240616162244-4768e80dfb9a // indirect
	github.com/cockroachdb/logtags v0.0.0-20230118201751-21c54148d20b // indirect
	github.com/cockroachdb/pebble v1.1.2 // indirect
	github.com/cockroachdb/redact v1.1.5 // indirect
	github.com/cockroachdb/tokenbucket v0.0.0-20230807174530-cc333fc44b06 // indirect
	github.com/cometbft/cometbft v0.38.17 // indirect
	github.com/cometbft/cometbft-db v0.14.1 // indirect
	github.com/containerd/cgroups v1.1.0 // indirect
	github.com/coreos/go-systemd/v22 v22.5.0 // indirect
	github.com/cosmos/btcutil v1.0.5 // indirect
	github.com/cosmos/cosmos-db v1.1.1 // indirect
	github.com/cosmos/cosmos-proto v1.0.0-beta.5 // indirect
	github.com/cosmos/go-bip39 v1.0.0 // indirect
	github.com/cosmos/gogogateway v1.2.0 // indirect
	github.com/cosmos/iavl v1.2.4 // indirect
	github.com/cosmos/ibc-go/modules/capability v1.0.1 // indirect
	github.com/cosmos/ibc-go/v8 v8.6.1 // indirect
	github.com/cosmos/ics23/go v0.11.0 // indirect
	github.com/cosmos/ledger-cosmos-go v0.14.0 // indirect
	github.com/cpuguy83/go-md2man/v2 v2.0.6 // indirect
	github.com/cskr/pubsub v1.0.2 // indirect
	github.com/danieljoos/wincred v1.2.2 // indirect
	github.com/davecgh/go-spew v1.1.2-0.20180830191138-d8f796af33cc // indirect
	github.com/davidlazar/go-crypto v0.0.0-20200604182044-b73af7476f6c // indirect
	github.com/desertbit/timer v1.0.1 // indirect
	github.com/dgraph-io/ristretto/v2 v2.2.0 // indirect
	github.com/docker/go-units v0.5.0 // indirect
	github.com/dustin/go-humanize v1.0.1 // indirect
	github.com/dvsekhvalnov/jose2go v1.7.0 // indirect
	github.com/elastic/gosigar v0.14.3 // indirect
	github.com/emicklei/dot v1.6.2 // indirect
	github.com/envoyproxy/go-control-plane/envoy v1.32.4 // indirect
	github.com/envoyproxy/protoc-gen-validate v1.2.1 // indirect
	github.com/fatih/color v1.17.0 // indirect
	github.com/felixge/httpsnoop v1.0.4 // indirect
	github.com/filecoin-project/go-clock v0.1.0 // indirect
	github.com/flynn/noise v1.1.0 // indirect
	github.com/francoispqt/gojay v1.2.13 // indirect
	github.com/fsnotify/fsnotify v1.8.0 // indirect
	github.com/gabriel-vasile/mimetype v1.4.6 // indirect
	github.com/gammazero/chanqueue v1.1.0 // indirect
	github.com/gammazero/deque v1.0.0 // indirect
	github.com/getsentry/sentry-go v0.28.1 // indirect
	github.com/go-jose/go-jose/v3 v3.0.4 // indirect
	github.com/go-jose/go-jose/v4 v4.0.5 // indirect
	github.com/go-kit/kit v0.13.0 // indirect
	github.com/go-kit/log v0.2.1 // indirect
	github.com/go-logfmt/logfmt v0.6.0 // indirect
	github.com/go-logr/logr v1.4.3 // indirect
	github.com/go-logr/stdr v1.2.2 // indirect
	github.com/go-openapi/jsonpointer v0.21.0 // indirect
	github.com/go-openapi/swag v0.23.0 // indirect
	github.com/go-playground/locales v0.14.1 // indirect
	github.com/go-playground/universal-translator v0.18.1 // indirect
	github.com/go-playground/validator/v10 v10.15.1 // indirect
	github.com/go-task/slim-sprig/v3 v3.0.0 // indirect
	github.com/go-viper/mapstructure/v2 v2.3.0 // indirect
	github.com/goccy/go-json v0.10.4 // indirect
	github.com/godbus/dbus v0.0.0-20190726142602-4481cbc300e2 // indirect
	github.com/godbus/dbus/v5 v5.1.0 // indirect
	github.com/gogo/googleapis v1.4.1 // indirect
	github.com/gogo/protobuf v1.3.2 // indirect
	github.com/golang/groupcache v0.0.0-20241129210726-2c02b8208cf8 // indirect
	github.com/golang/mock v1.6.0 // indirect
	github.com/golang/protobuf v1.5.4 // indirect
	github.com/golang/snappy v0.0.5-0.20220116011046-fa5810519dcb // indirect
	github.com/google/btree v1.1.3 // indirect
	github.com/google/flatbuffers v25.2.10+incompatible // indirect
	github.com/google/go-cmp v0.7.0 // indirect
	github.com/google/gopacket v1.1.19 // indirect
	github.com/google/orderedcode v0.0.1 // indirect
	github.com/google/pprof v0.0.0-20250208200701-d0013a598941 // indirect
	github.com/google/s2a-go v0.1.8 // indirect
	github.com/googleapis/enterprise-certificate-proxy v0.3.4 // indirect
	github.com/googleapis/gax-go/v2 v2.14.1 // indirect
	github.com/gorilla/handlers v1.5.2 // indirect
	github.com/gorilla/mux v1.8.1 // indirect
	github.com/gorilla/websocket v1.5.3 // indirect
	github.com/grpc-ecosystem/go-grpc-middleware v1.4.0 // indirect
	github.com/grpc-ecosystem/grpc-gateway v1.16.0 // indirect
	github.com/grpc-ecosystem/grpc-gateway/v2 v2.27.1 // indirect
	github.com/gsterjov/go-libsecret v0.0.0-20161001094733-a6f4afe4910c // indirect
	github.com/hashicorp/go-cleanhttp v0.5.2 // indirect
	github.com/hashicorp/go-getter v1.7.5 // indirect
	github.com/hashicorp/go-hclog v1.6.3 // indirect
	github.com/hashicorp/go-immutable-radix v1.3.1 // indirect
	github.com/hashicorp/go-metrics v0.5.3 // indirect
	github.com/hashicorp/go-plugin v1.6.1 // indirect
	github.com/hashicorp/go-safetemp v1.0.0 // indirect
	github.com/hashicorp/go-version v1.7.0 // indirect
	github.com/hashicorp/golang-lru v1.0.2 // indirect
	github.com/hashicorp/golang-lru/v2 v2.0.7 // indirect
	github.com/hashicorp/yamux v0.1.1 // indirect
	github.com/hdevalence/ed25519consensus v0.2.0 // indirect
	github.com/huandu/skiplist v1.2.0 // indirect
	github.com/huin/goupnp v1.3.0 // indirect
	github.com/hyperledger/aries-framework-go v0.3.2 // indirect
	github.com/hyperledger/aries-framework-go/component/kmscrypto v0.0.0-20230427134832-0c9969493bd3 // indirect
	github.com/hyperledger/aries-framework-go/component/log v0.0.0-20230427134832-0c9969493bd3 // indirect
	github.com/hyperledger/aries-framework-go/component/models v0.0.0-20230501135648-a9a7ad029347 // indirect
	github.com/hyperledger/aries-framework-go/spi v0.0.0-20230427134832-0c9969493bd3 // indirect
	github.com/ignite/cli/v28 v28.6.1 // indirect
	github.com/improbable-eng/grpc-web v0.15.0 // indirect
	github.com/inconshreveable/mousetrap v1.1.0 // indirect
	github.com/ipfs/bbloom v0.0.4 // indirect
	github.com/ipfs/go-ipfs-delay v0.0.1 // indirect
	github.com/ipfs/go-ipfs-pq v0.0.3 // indirect
	github.com/ipfs/go-log/v2 v2.6.0 // indirect
	github.com/ipfs/go-metrics-interface v0.3.0 // indirect
	github.com/ipfs/go-peertaskqueue v0.8.2 // indirect
	github.com/ipfs/kubo v0.25.0 // indirect
	github.com/jackpal/go-nat-pmp v1.0.2 // indirect
	github.com/jbenet/go-temp-err-catcher v0.1.0 // indirect
	github.com/jmespath/go-jmespath v0.4.0 // indirect
	github.com/jmhodges/levigo v1.0.0 // indirect
	github.com/josharian/intern v1.0.0 // indirect
	github.com/kilic/bls12-381 v0.1.1-0.20210503002446-7b7597926c69 // indirect
	github.com/klauspost/compress v1.18.0 // indirect
	github.com/klauspost/cpuid/v2 v2.2.10 // indirect
	github.com/koron/go-ssdp v0.0.5 // indirect
	github.com/kr/pretty v0.3.1 // indirect
	github.com/kr/text v0.2.0 // indirect
	github.com/leodido/go-urn v1.2.4 // indirect
	github.com/lestrrat-go/blackmagic v1.0.3 // indirect
	github.com/lestrrat-go/httpcc v1.0.1 // indirect
	github.com/lestrrat-go/httprc v1.0.6 // indirect
	github.com/lestrrat-go/iter v1.0.2 // indirect
	github.com/lestrrat-go/option v1.0.1 // indirect
	github.com/lib/pq v1.10.9 // indirect
	github.com/libp2p/go-buffer-pool v0.1.0 // indirect
	github.com/libp2p/go-cidranger v1.1.0 // indirect
	github.com/libp2p/go-flow-metrics v0.2.0 // indirect
	github.com/libp2p/go-libp2p-asn-util v0.4.1 // indirect
	github.com/libp2p/go-libp2p-kbucket v0.7.0 // indirect
	github.com/libp2p/go-libp2p-routing-helpers v0.7.5 // indirect
	github.com/libp2p/go-msgio v0.3.0 // indirect
	github.com/libp2p/go-netroute v0.2.2 // indirect
	github.com/libp2p/go-reuseport v0.4.0 // indirect
	github.com/libp2p/go-yamux/v5 v5.0.0 // indirect
	github.com/linxGnu/grocksdb v1.9.2 // indirect
	github.com/lmittmann/tint v1.0.4 // indirect
	github.com/mailru/easyjson v0.7.7 // indirect
	github.com/manifoldco/promptui v0.9.0 // indirect
	github.com/marten-seemann/tcp v0.0.0-20210406111302-dfbc87cc63fd // indirect
	github.com/mattn/go-colorable v0.1.13 // indirect
	github.com/mattn/go-isatty v0.0.20 // indirect
	github.com/miekg/dns v1.1.66 // indirect
	github.com/mikioh/tcpinfo v0.0.0-20190314235526-30a79bb1804b // indirect
	github.com/mikioh/tcpopt v0.0.0-20190314235656-172688c1accc // indirect
	github.com/minio/highwayhash v1.0.3 // indirect
	github.com/minio/sha256-simd v1.0.1 // indirect
	github.com/mitchellh/go-homedir v1.1.0 // indirect
	github.com/mitchellh/go-testing-interface v1.14.1 // indirect
	github.com/mitchellh/mapstructure v1.5.0 // indirect
	github.com/mohae/deepcopy v0.0.0-20170929034955-c48cc78d4826 // indirect
	github.com/mtibben/percent v0.2.1 // indirect
	github.com/multiformats/go-base32 v0.1.0 // indirect
	github.com/multiformats/go-base36 v0.2.0 // indirect
	github.com/multiformats/go-multiaddr-dns v0.4.1 // indirect
	github.com/multiformats/go-multiaddr-fmt v0.1.0 // indirect
	github.com/multiformats/go-multistream v0.6.0 // indirect
	github.com/munnerz/goautoneg v0.0.0-20191010083416-a7dc8b61c822 // indirect
	github.com/oasdiff/yaml v0.0.0-20250309154309-f31be36b4037 // indirect
	github.com/oasdiff/yaml3 v0.0.0-20250309153720-d2182401db90 // indirect
	github.com/oasisprotocol/curve25519-voi v0.0.0-20230904125328-1f23a7beb09a // indirect
	github.com/oklog/run v1.1.0 // indirect
	github.com/onsi/ginkgo/v2 v2.23.3 // indirect
	github.com/opencontainers/runtime-spec v1.2.0 // indirect
	github.com/pbnjay/memory v0.0.0-20210728143218-7b4eea64cf58 // indirect
	github.com/pelletier/go-toml/v2 v2.2.3 // indirect
	github.com/perimeterx/marshmallow v1.1.5 // indirect
	github.com/petermattis/goid v0.0.0-20240813172612-4fcff4a6cae7 // indirect
	github.com/pion/datachannel v1.5.10 // indirect
	github.com/pion/dtls/v2 v2.2.12 // indirect
	github.com/pion/dtls/v3 v3.0.4 // indirect
	github.com/pion/ice/v4 v4.0.8 // indirect
	github.com/pion/interceptor v0.1.39 // indirect
	github.com/pion/logging v0.2.3 // indirect
	github.com/pion/mdns/v2 v2.0.7 // indirect
	github.com/pion/randutil v0.1.0 // indirect
	github.com/pion/rtcp v1.2.15 // indirect
	github.com/pion/rtp v1.8.18 // indirect
	github.com/pion/sctp v1.8.37 // indirect
	github.com/pion/sdp/v3 v3.0.10 // indirect
	github.com/pion/srtp/v3 v3.0.4 // indirect
	github.com/pion/stun v0.6.1 // indirect
	github.com/pion/stun/v3 v3.0.0 // indirect
	github.com/pion/transport/v2 v2.2.10 // indirect
	github.com/pion/transport/v3 v3.0.7 // indirect
	github.com/pion/turn/v4 v4.0.0 // indirect
	github.com/pion/webrtc/v4 v4.0.10 // indirect
	github.com/piprate/json-gold v0.5.0 // indirect
	github.com/planetscale/vtprotobuf v0.6.1-0.20240319094008-0393e58bdf10 // indirect
	github.com/pmezard/go-difflib v1.0.1-0.20181226105442-5d4384ee4fb2 // indirect
	github.com/polydawn/refmt v0.89.0 // indirect
	github.com/pquerna/cachecontrol v0.1.0 // indirect
	github.com/prometheus/client_golang v1.22.0 // indirect
	github.com/prometheus/client_model v0.6.2 // indirect
	github.com/prometheus/common v0.63.0 // indirect
	github.com/prometheus/procfs v0.16.1 // indirect
	github.com/quic-go/qpack v0.5.1 // indirect
	github.com/quic-go/quic-go v0.50.1 // indirect
	github.com/quic-go/webtransport-go v0.8.1-0.20241018022711-4ac2c9250e66 // indirect
	github.com/raulk/go-watchdog v1.3.0 // indirect
	github.com/rcrowley/go-metrics v0.0.0-20201227073835-cf1acfcdf475 // indirect
	github.com/rogpeppe/go-internal v1.13.1 // indirect
	github.com/rs/cors v1.11.1 // indirect
	github.com/rs/zerolog v1.33.0 // indirect
	github.com/russross/blackfriday/v2 v2.1.0 // indirect
	github.com/sagikazarmark/locafero v0.7.0 // indirect
	github.com/sasha-s/go-deadlock v0.3.5 // indirect
	github.com/segmentio/asm v1.2.0 // indirect
	github.com/sirupsen/logrus v1.9.3 // indirect
	github.com/sourcegraph/conc v0.3.0 // indirect
	github.com/sourcenetwork/raccoondb v0.2.1-0.20240722161350-d4a78b691ec8 // indirect
	github.com/sourcenetwork/raccoondb/v2 v2.0.0 // indirect
	github.com/sourcenetwork/zanzi v0.3.1-0.20250326181925-74d3e97fb950 // indirect
	github.com/spaolacci/murmur3 v1.1.0 // indirect
	github.com/spf13/afero v1.12.0 // indirect
	github.com/spf13/cast v1.7.1 // indirect
	github.com/spiffe/go-spiffe/v2 v2.5.0 // indirect
	github.com/stretchr/objx v0.5.2 // indirect
	github.com/subosito/gotenv v1.6.0 // indirect
	github.com/syndtr/goleveldb v1.0.1-0.20220721030215-126854af5e6d // indirect
	github.com/tendermint/go-amino v0.16.0 // indirect
	github.com/tendermint/tendermint v0.35.9 // indirect
	github.com/tetratelabs/wazero v1.9.0 // indirect
	github.com/textileio/go-log/v2 v2.1.3-gke-2 // indirect
	github.com/tidwall/btree v1.7.0 // indirect
	github.com/twitchyliquid64/golang-asm v0.15.1 // indirect
	github.com/ugorji/go/codec v1.2.12 // indirect
	github.com/ulikunitz/xz v0.5.11 // indirect
	github.com/wasmerio/wasmer-go v1.0.4 // indirect
	github.com/whyrusleeping/go-keyspace v0.0.0-20160322163242-5b898ac5add1 // indirect
	github.com/wlynxg/anet v0.0.5 // indirect
	github.com/x448/float16 v0.8.4 // indirect
	github.com/zeebo/errs v1.4.0 // indirect
	github.com/zondax/hid v0.9.2 // indirect
	github.com/zondax/ledger-go v0.14.3 // indirect
	go.etcd.io/bbolt v1.4.0-alpha.1 // indirect
	go.opencensus.io v0.24.0 // indirect
	go.opentelemetry.io/auto/sdk v1.1.0 // indirect
	go.opentelemetry.io/contrib/detectors/gcp v1.35.0 // indirect
	go.opentelemetry.io/contrib/instrumentation/google.golang.org/grpc/otelgrpc v0.54.0 // indirect
	go.opentelemetry.io/contrib/instrumentation/net/http/otelhttp v0.58.0 // indirect
	go.opentelemetry.io/otel/exporters/otlp/otlptrace v1.37.0 // indirect
	go.opentelemetry.io/otel/metric v1.37.0 // indirect
	go.opentelemetry.io/proto/otlp v1.7.0 // indirect
	go.uber.org/dig v1.18.0 // indirect
	go.uber.org/fx v1.23.0 // indirect
	go.uber.org/mock v0.5.0 // indirect
	go.uber.org/multierr v1.11.0 // indirect
	go.uber.org/zap v1.27.0 // indirect
	golang.org/x/arch v0.6.0 // indirect
	golang.org/x/mod v0.25.0 // indirect
	golang.org/x/net v0.41.0 // indirect
	golang.org/x/oauth2 v0.30.0 // indirect
	golang.org/x/sync v0.15.0 // indirect
	golang.org/x/sys v0.33.0 // indirect
	golang.org/x/term v0.32.0 // indirect
	golang.org/x/text v0.26.0 // indirect
	golang.org/x/time v0.9.0 // indirect
	golang.org/x/tools v0.33.0 // indirect
	gonum.org/v1/gonum v0.16.0 // indirect
	google.golang.org/api v0.215.0 // indirect
	google.golang.org/genproto v0.0.0-20241118233622-e639e219e697 // indirect
	google.golang.org/genproto/googleapis/api v0.0.0-20250603155806-513f23925822 // indirect
	google.golang.org/genproto/googleapis/rpc v0.0.0-20250603155806-513f23925822 // indirect
	google.golang.org/protobuf v1.36.6 // indirect
	gopkg.in/yaml.v2 v2.4.0 // indirect
	gopkg.in/yaml.v3 v3.0.1 // indirect
	gotest.tools/v3 v3.5.1 // indirect
	k8s.io/apimachinery v0.32.3 // indirect
	lukechampine.com/blake3 v1.4.1 // indirect
	nhooyr.io/websocket v1.8.17 // indirect
	pgregory.net/rapid v1.1.0 // indirect
	sigs.k8s.io/yaml v1.4.0 // indirect
)


replace github.com/sourcenetwork/defradb => /repo
