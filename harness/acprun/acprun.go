// Package acprun replays behaviours of spec/ACP.tla on a real node with local document ACP and compares, after
// every step and for every requester, every request kind with the observation predicted by the specification.
package acprun

import (
	"context"
	"encoding/json"
	"errors"
	"fmt"
	"sort"
	"strings"
	"time"

	"github.com/sourcenetwork/immutable"
	"github.com/sourcenetwork/lens/host-go/config/model"

	"github.com/sourcenetwork/defradb/acp/identity"
	"github.com/sourcenetwork/defradb/client"
	"github.com/sourcenetwork/defradb/crypto"
	"github.com/sourcenetwork/defradb/verif/cluster"
)

type Obs struct {
	IDs         []int   `json:"ids"`
	Rows        [][]int `json:"rows"`
	Ge2         []int   `json:"ge2"`
	Count       int     `json:"count"`
	Sum         int     `json:"sum"`
	Max         int     `json:"max"`
	Groups      [][]int `json:"groups"`
	WithDeleted []int   `json:"withDeleted"`
	Readable    []int   `json:"readable"`
}

type Step struct {
	Op  string          `json:"op"`
	A   int             `json:"a"`
	D   int             `json:"d"`
	V   int             `json:"v"`
	R   string          `json:"r"`
	B   int             `json:"b"`
	Res string          `json:"res"`
	Obs json.RawMessage `json:"obs"`
	Sub json.RawMessage `json:"sub"`
}

const policy = `
name: verif policy
description: owner / reader / updater / deleter
actor:
  name: actor
resources:
  users:
    permissions:
      read:
        expr: owner + reader + updater + deleter
      update:
        expr: owner + updater
      delete:
        expr: owner + deleter
    relations:
      owner:
        types:
          - actor
      reader:
        types:
          - actor
      updater:
        types:
          - actor
      deleter:
        types:
          - actor
`

type Violation struct {
	Behaviour int    `json:"behaviour"`
	Step      int    `json:"step"`
	Kind      string `json:"kind"`
	Msg       string `json:"msg"`
	Data      []Step `json:"behaviour_data,omitempty"`
}

type Result struct {
	Behaviours    int            `json:"behaviours"`
	Steps         int            `json:"steps"`
	Requests      int            `json:"requests"`
	ByKind        map[string]int `json:"requests_by_kind"`
	Refused       int            `json:"refused_attempts"`
	SubBehaviours int            `json:"subscription_behaviours"`
	SubResults    int            `json:"subscription_results"`
	SubSilences   int            `json:"subscription_silences_checked"`
	Violations    []Violation    `json:"violations"`
	HarnessErrs   []string       `json:"harness_errors"`
}

type Runner struct {
	ctx    context.Context
	idents map[int]identity.Identity
	Res    *Result
	hung   map[string]bool
	cur    []Step
	step   int
	Full   bool // issue every request kind at every step
	// SubEvery: every k-th behaviour runs with a GraphQL subscription open for every requester (0: never)
	SubEvery int
}

func NewRunner(ctx context.Context, actors int) (*Runner, error) {
	r := &Runner{ctx: ctx, idents: map[int]identity.Identity{}, Res: &Result{ByKind: map[string]int{}}, hung: map[string]bool{}}
	for a := 1; a <= actors; a++ {
		id, err := identity.Generate(crypto.KeyTypeSecp256k1)
		if err != nil {
			return nil, err
		}
		r.idents[a] = id
	}
	return r, nil
}

func (r *Runner) as(a int) context.Context {
	if a == 0 {
		return r.ctx
	}
	return identity.WithContext(r.ctx, immutable.Some(r.idents[a]))
}

func (r *Runner) violate(bi, si int, kind, f string, a ...any) {
	v := Violation{Behaviour: bi, Step: si, Kind: kind, Msg: fmt.Sprintf(f, a...)}
	first := true
	for _, o := range r.Res.Violations {
		if o.Behaviour == bi && o.Data != nil {
			first = false
		}
	}
	if first {
		v.Data = r.cur
	}
	r.Res.Violations = append(r.Res.Violations, v)
}

func ints(xs []int) string { s := append([]int{}, xs...); sort.Ints(s); return fmt.Sprint(s) }

func setOfRows(rows []map[string]any, key string) []int {
	var out []int
	for _, row := range rows {
		if n, ok := row[key].(json.Number); ok {
			i, _ := n.Int64()
			out = append(out, int(i))
		}
	}
	sort.Ints(out)
	return out
}

// Replay runs one behaviour on a fresh node.
func (r *Runner) Replay(bi int, steps []Step) {
	r.cur = steps
	r.Res.Behaviours++
	n, err := cluster.NewNode(r.ctx, "acp", cluster.Options{DocACP: true})
	if err != nil {
		r.Res.HarnessErrs = append(r.Res.HarnessErrs, err.Error())
		return
	}
	defer n.Close()
	pr, err := n.DB.AddDACPolicy(r.as(1), policy)
	if err != nil {
		r.Res.HarnessErrs = append(r.Res.HarnessErrs, "AddDACPolicy: "+err.Error())
		return
	}
	sdl := fmt.Sprintf("type T @policy(id: %q, resource: \"users\") {\n k: Int\n v: Int @index\n}", pr.PolicyID)
	if _, err := n.DB.AddSchema(r.ctx, sdl); err != nil {
		r.Res.HarnessErrs = append(r.Res.HarnessErrs, "AddSchema: "+err.Error())
		return
	}
	docIDs := map[int]string{}
	createCid := map[int]string{}
	npatch := 0
	// the subscription route: one subscription per requester, opened before the history
	subs := map[int]<-chan client.GQLResult{}
	if r.SubEvery > 0 && r.Res.Behaviours%r.SubEvery == 0 {
		r.Res.SubBehaviours++
		for a := range r.idents {
			sctx, cancel := context.WithCancel(r.as(a))
			defer cancel()
			res := n.DB.ExecRequest(sctx, `subscription { T { k v } }`)
			if len(res.GQL.Errors) > 0 || res.Subscription == nil {
				r.Res.HarnessErrs = append(r.Res.HarnessErrs, fmt.Sprintf("subscription of requester %d: %v", a, res.GQL.Errors))
				return
			}
			subs[a] = res.Subscription
		}
		sctx, cancel := context.WithCancel(r.ctx)
		defer cancel()
		res := n.DB.ExecRequest(sctx, `subscription { T { k v } }`)
		if len(res.GQL.Errors) > 0 || res.Subscription == nil {
			r.Res.HarnessErrs = append(r.Res.HarnessErrs, fmt.Sprintf("subscription of the anonymous requester: %v", res.GQL.Errors))
			return
		}
		subs[0] = res.Subscription
	}
	for si, st := range steps {
		r.Res.Steps++
		ctx := r.as(st.A)
		got := ""
		switch st.Op {
		case "create":
			data, err := n.Exec(ctx, fmt.Sprintf(`mutation { create_T(input: {k: %d, v: %d}) { _docID } }`, st.D, st.V))
			if err != nil {
				r.Res.HarnessErrs = append(r.Res.HarnessErrs, "create: "+err.Error())
				return
			}
			docIDs[st.D] = cluster.Rows(data, "create_T")[0]["_docID"].(string)
			hd, err := n.Exec(ctx, fmt.Sprintf(`query { latestCommits(docID: %q) { cid } }`, docIDs[st.D]))
			if err == nil && len(cluster.Rows(hd, "latestCommits")) == 1 {
				createCid[st.D] = cluster.Rows(hd, "latestCommits")[0]["cid"].(string)
			}
			got = "ok"
		case "update":
			switch st.R {
			case "filter":
				// the collection API's filtered update
				col, err := n.DB.GetCollectionByName(ctx, "T")
				if err == nil {
					var res *client.UpdateResult
					res, err = col.UpdateWithFilter(ctx, fmt.Sprintf(`{k: {_eq: %d}}`, st.D), fmt.Sprintf(`{"v": %d}`, st.V))
					rows := 0
					if res != nil {
						rows = int(res.Count)
					}
					got = outcome(err, rows)
				} else {
					got = outcome(err, 0)
				}
			case "save":
				// Get + Set + Save through the collection API
				col, err := n.DB.GetCollectionByName(ctx, "T")
				if err == nil {
					id, _ := client.NewDocIDFromString(docIDs[st.D])
					var doc *client.Document
					doc, err = col.Get(ctx, id, false)
					if err == nil {
						if err = doc.Set("v", int64(st.V)); err == nil {
							err = col.Save(ctx, doc)
						}
					}
				}
				got = outcome(err, 1)
			default:
				data, err := n.Exec(ctx, fmt.Sprintf(`mutation { update_T(docID: %q, input: {v: %d}) { _docID } }`, docIDs[st.D], st.V))
				got = outcome(err, len(cluster.Rows(data, "update_T")))
			}
		case "delete":
			if st.R == "filter" {
				data, err := n.Exec(ctx, fmt.Sprintf(`mutation { delete_T(filter: {k: {_eq: %d}}) { _docID } }`, st.D))
				got = outcome(err, len(cluster.Rows(data, "delete_T")))
			} else {
				data, err := n.Exec(ctx, fmt.Sprintf(`mutation { delete_T(docID: %q) { _docID } }`, docIDs[st.D]))
				got = outcome(err, len(cluster.Rows(data, "delete_T")))
			}
		case "patch":
			npatch++
			err := n.DB.PatchSchema(r.ctx, fmt.Sprintf(`[{"op": "add", "path": "/T/Fields/-", "value": {"Name": "extra%d", "Kind": "String"}}]`, npatch), immutable.None[model.Lens](), true)
			if err != nil {
				r.Res.HarnessErrs = append(r.Res.HarnessErrs, "patch: "+err.Error())
				return
			}
			got = "ok"
		case "grant":
			_, err := n.DB.AddDACActorRelationship(ctx, "T", docIDs[st.D], st.R, r.idents[st.B].DID())
			got = outcome(err, 1)
		case "revoke":
			_, err := n.DB.DeleteDACActorRelationship(ctx, "T", docIDs[st.D], st.R, r.idents[st.B].DID())
			got = outcome(err, 1)
		}
		if got == "crash" {
			r.violate(bi, si, "crash:"+st.Op, "%s by requester %d on document %d crashed or hung", st.Op, st.A, st.D)
			return
		}
		if got != st.Res {
			if st.Res == "refused" {
				r.violate(bi, si, "unauthorized-"+st.Op, "%s by requester %d on document %d succeeded although the requester lacks the permission", st.Op, st.A, st.D)
			} else {
				r.violate(bi, si, "authorized-"+st.Op+"-refused", "%s by requester %d on document %d was refused although the policy grants it", st.Op, st.A, st.D)
			}
			return
		}
		if st.Res == "refused" {
			r.Res.Refused++
		}
		if len(subs) > 0 && !r.checkSubs(bi, si, &st, subs) {
			return
		}
		// every requester, every request kind
		var all map[string]Obs
		if err := json.Unmarshal(st.Obs, &all); err != nil {
			var arr []Obs // ToJson renders a function over 0..N as an array
			if err2 := json.Unmarshal(st.Obs, &arr); err2 != nil {
				r.Res.HarnessErrs = append(r.Res.HarnessErrs, "obs: "+err.Error())
				return
			}
			all = map[string]Obs{}
			for i, o := range arr {
				all[fmt.Sprint(i)] = o
			}
		}
		r.step = si
		for as, o := range all {
			var a int
			fmt.Sscan(as, &a)
			r.observe(bi, si, n, a, &o, docIDs, createCid)
		}
		if len(r.Res.Violations) > 40 {
			return
		}
	}
}

// checkSubs reads what the step delivered to each requester's subscription: exactly the result the specification owes it
// (document and value), or nothing.
func (r *Runner) checkSubs(bi, si int, st *Step, subs map[int]<-chan client.GQLResult) bool {
	want := map[int][]int{}
	var byName map[string][]int
	if err := json.Unmarshal(st.Sub, &byName); err != nil {
		var arr [][]int // a function over 0..N renders as an array
		if err2 := json.Unmarshal(st.Sub, &arr); err2 != nil {
			r.Res.HarnessErrs = append(r.Res.HarnessErrs, "sub: "+err.Error())
			return false
		}
		for i, x := range arr {
			want[i] = x
		}
	} else {
		for k, x := range byName {
			var a int
			fmt.Sscan(k, &a)
			want[a] = x
		}
	}
	for a, ch := range subs {
		w := want[a]
		if len(w) == 2 {
			select {
			case res, ok := <-ch:
				if !ok {
					r.violate(bi, si, "subscription-closed", "the subscription of requester %d was closed", a)
					return false
				}
				r.Res.SubResults++
				norm, _ := cluster.Normalize(res.Data)
				rows := cluster.Rows(norm, "T")
				k, v := -1, -1
				if len(rows) == 1 {
					k, _ = toInt(rows[0]["k"])
					v, _ = toInt(rows[0]["v"])
				}
				if len(res.Errors) > 0 || len(rows) != 1 || k != w[0] || v != w[1] {
					r.violate(bi, si, "subscription-result", "after %s by requester %d the subscription of requester %d delivered %v (errors %v); the specification owes it document %d with v=%d", st.Op, st.A, a, norm, res.Errors, w[0], w[1])
					return false
				}
			case <-time.After(5 * time.Second):
				r.violate(bi, si, "subscription-missing", "after %s of document %d by requester %d, requester %d, who may read the document, received nothing on its subscription within 5s", st.Op, st.D, st.A, a)
				return false
			}
			continue
		}
		// nothing is owed: the subscription must stay silent (a late leak is caught by the next step's read)
		r.Res.SubSilences++
		select {
		case res, ok := <-ch:
			if ok {
				norm, _ := cluster.Normalize(res.Data)
				r.violate(bi, si, "subscription-leak", "after %s of document %d by requester %d (result %s) the subscription of requester %d delivered %v although nothing readable for it was committed", st.Op, st.D, st.A, st.Res, a, norm)
				return false
			}
		case <-time.After(60 * time.Millisecond):
		}
	}
	return true
}

func outcome(err error, rows int) string {
	if err != nil {
		if errors.Is(err, cluster.ErrHang) || errors.Is(err, cluster.ErrPanic) {
			return "crash"
		}
		return "refused"
	}
	if rows == 0 {
		return "refused"
	}
	return "ok"
}

// kindGroup spreads the request kinds over three consecutive steps (the listing is issued at every step)
var kindGroup = map[string]int{"list": -1, "filter-indexed": 0, "order-limit": 1, "aggregate": 2, "group": 0, "showDeleted": -1, "version": 2,
	"commits-all": 0, "docID": 1, "commits": 2, "latestCommits": 0, "cid-read": 1, "commits-cid": 2}

func (r *Runner) q(n *cluster.Node, a int, kind, req string) (map[string]any, error, bool) {
	if r.hung[kind] {
		return nil, nil, false
	}
	if g, ok := kindGroup[kind]; ok && g >= 0 && !r.Full && g != r.step%3 {
		return nil, nil, false
	}
	r.Res.Requests++
	r.Res.ByKind[kind]++
	data, err := n.Exec(r.as(a), req)
	if err != nil && errors.Is(err, cluster.ErrHang) {
		r.hung[kind] = true
	}
	return data, err, true
}

func (r *Runner) observe(bi, si int, n *cluster.Node, a int, o *Obs, docIDs map[int]string, createCid map[int]string) {
	who := fmt.Sprintf("requester %d after step %d", a, si)
	bad := func(kind, f string, x ...any) { r.violate(bi, si, kind, who+": "+f, x...) }
	crash := func(kind string, err error) bool {
		if err != nil && (errors.Is(err, cluster.ErrHang) || errors.Is(err, cluster.ErrPanic)) {
			bad("crash:"+kind, "%v", err)
			return true
		}
		return false
	}
	// 1 listing
	if d, err, ok := r.q(n, a, "list", `query { T { k v } }`); ok {
		if crash("list", err) {
			return
		}
		if err != nil {
			bad("list", "error %v", err)
		} else {
			var got [][]int
			for _, row := range cluster.Rows(d, "T") {
				k, _ := row["k"].(json.Number).Int64()
				v, _ := row["v"].(json.Number).Int64()
				got = append(got, []int{int(k), int(v)})
			}
			if rowsKey(got) != rowsKey(o.Rows) {
				bad("list", "listing returned %v, with the unreadable documents absent it would return %v", got, o.Rows)
			}
		}
	}
	// 2 filter on an indexed field
	if d, err, ok := r.q(n, a, "filter-indexed", `query { T(filter: {v: {_ge: 2}}) { k } }`); ok && !crash("filter", err) {
		if got := setOfRows(cluster.Rows(d, "T"), "k"); err != nil || ints(got) != ints(o.Ge2) {
			bad("filter-indexed", "filter v>=2 returned %v (err %v), expected %v", got, err, o.Ge2)
		}
	}
	// 3 order + limit
	if d, err, ok := r.q(n, a, "order-limit", `query { T(order: {v: DESC}, limit: 1) { k v } }`); ok && !crash("order", err) {
		rows := cluster.Rows(d, "T")
		if err != nil || (o.Count == 0) != (len(rows) == 0) {
			bad("order-limit", "order/limit returned %d rows (err %v), %d documents are readable", len(rows), err, o.Count)
		} else if len(rows) == 1 {
			v, _ := rows[0]["v"].(json.Number).Int64()
			if int(v) != o.Max {
				bad("order-limit", "top document has v=%d, the maximum over the readable documents is %d", v, o.Max)
			}
		}
	}
	// 4 aggregates
	if d, err, ok := r.q(n, a, "aggregate", `query { _count(T: {}) _sum(T: {field: v}) }`); ok && !crash("aggregate", err) {
		c, _ := toInt(d["_count"])
		s, _ := toInt(d["_sum"])
		if err != nil || c != o.Count || s != o.Sum {
			bad("aggregate", "_count=%v _sum=%v (err %v), over the readable documents: %d and %d", d["_count"], d["_sum"], err, o.Count, o.Sum)
		}
	}
	// 5 grouping
	if d, err, ok := r.q(n, a, "group", `query { T(groupBy: [v]) { v _count(_group: {}) } }`); ok && !crash("group", err) {
		var got [][]int
		for _, row := range cluster.Rows(d, "T") {
			v, _ := toInt(row["v"])
			c, _ := toInt(row["_count"])
			got = append(got, []int{v, c})
		}
		if err != nil || rowsKey(got) != rowsKey(o.Groups) {
			bad("group", "groups %v (err %v), expected %v", got, err, o.Groups)
		}
	}
	// 6 showDeleted
	if d, err, ok := r.q(n, a, "showDeleted", `query { T(showDeleted: true) { k _deleted } }`); ok && !crash("showDeleted", err) {
		if got := setOfRows(cluster.Rows(d, "T"), "k"); err != nil || ints(got) != ints(o.WithDeleted) {
			bad("showDeleted", "showDeleted listing returned %v (err %v), expected %v", got, err, o.WithDeleted)
		}
	}
	readable := map[int]bool{}
	for _, d := range o.Readable {
		readable[d] = true
	}
	visible := map[int]bool{}
	for _, d := range o.IDs {
		visible[d] = true
	}
	// 7 _version sub selection and joins with commits
	if d, err, ok := r.q(n, a, "version", `query { T { k _version { cid height } } }`); ok && !crash("version", err) {
		if got := setOfRows(cluster.Rows(d, "T"), "k"); err != nil || ints(got) != ints(o.IDs) {
			bad("version", "_version listing returned %v (err %v), expected %v", got, err, o.IDs)
		}
	}
	// 8 commit history of the whole collection
	if d, err, ok := r.q(n, a, "commits-all", `query { commits { docID cid } }`); ok && !crash("commits", err) {
		for _, row := range cluster.Rows(d, "commits") {
			id, _ := row["docID"].(string)
			for dn, did := range docIDs {
				if did == id && !readable[dn] {
					bad("commits-all", "commits query returned commit %v of document %d which the requester may not read", row["cid"], dn)
				}
			}
		}
	}
	ds := make([]int, 0, len(docIDs))
	for d := range docIDs {
		ds = append(ds, d)
	}
	sort.Ints(ds)
	for _, dn := range ds {
		id := docIDs[dn]
		// 9 lookup by docID
		if d, err, ok := r.q(n, a, "docID", fmt.Sprintf(`query { T(docID: %q) { k v } }`, id)); ok && !crash("docID", err) {
			if n := len(cluster.Rows(d, "T")); (n == 1) != visible[dn] {
				bad("docID", "lookup of document %d by id returned %d rows (err %v); visible=%v", dn, n, err, visible[dn])
			}
		}
		// 10 commits / latestCommits of a document
		for _, kind := range []string{"commits", "latestCommits"} {
			if d, err, ok := r.q(n, a, kind, fmt.Sprintf(`query { %s(docID: %q) { cid delta } }`, kind, id)); ok && !crash(kind, err) {
				if len(cluster.Rows(d, kind)) > 0 && !readable[dn] {
					bad(kind, "%s(docID) returned %d commits (with deltas) of document %d which the requester may not read", kind, len(cluster.Rows(d, kind)), dn)
				}
				if err == nil && len(cluster.Rows(d, kind)) == 0 && readable[dn] {
					bad(kind, "%s(docID) returned nothing for readable document %d", kind, dn)
				}
			}
		}
		// 11 time travel read at the creation commit
		if c := createCid[dn]; c != "" {
			if d, err, ok := r.q(n, a, "cid-read", fmt.Sprintf(`query { T(cid: %q, docID: %q) { k v } }`, c, id)); ok && !crash("cid-read", err) {
				if len(cluster.Rows(d, "T")) > 0 && !readable[dn] {
					bad("cid-read", "time-travel read returned document %d which the requester may not read", dn)
				}
			}
			if d, err, ok := r.q(n, a, "commits-cid", fmt.Sprintf(`query { commits(cid: %q) { cid delta docID } }`, c)); ok && !crash("commits-cid", err) {
				if len(cluster.Rows(d, "commits")) > 0 && !readable[dn] {
					bad("commits-cid", "commits(cid) returned the creation commit of document %d which the requester may not read", dn)
				}
			}
		}
	}
	// 12 collection API listing of ids
	col, err := n.DB.GetCollectionByName(r.as(a), "T")
	if err == nil && (r.Full || r.step%3 == 0) {
		r.Res.Requests++
		r.Res.ByKind["GetAllDocIDs"]++
		ch, err := col.GetAllDocIDs(r.as(a))
		if err == nil {
			var got []int
			for x := range ch {
				for dn, did := range docIDs {
					if x.Err == nil && did == x.ID.String() {
						got = append(got, dn)
					}
				}
			}
			if ints(got) != ints(o.Readable) {
				bad("GetAllDocIDs", "GetAllDocIDs returned %v, readable documents are %v", got, o.Readable)
			}
		}
		// 13 collection API Get
		for _, dn := range ds {
			id, _ := client.NewDocIDFromString(docIDs[dn])
			_, err := col.Get(r.as(a), id, true)
			r.Res.Requests++
			r.Res.ByKind["col.Get"]++
			if (err == nil) != readable[dn] {
				bad("col.Get", "collection.Get(showDeleted) of document %d: err=%v, readable=%v", dn, err, readable[dn])
			}
		}
	}
}

func toInt(x any) (int, bool) {
	n, ok := x.(json.Number)
	if !ok {
		return 0, false
	}
	f, err := n.Float64()
	return int(f), err == nil
}

func rowsKey(rows [][]int) string {
	var s []string
	for _, r := range rows {
		s = append(s, fmt.Sprint(r))
	}
	sort.Strings(s)
	return strings.Join(s, ",")
}
