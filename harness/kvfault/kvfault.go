// Package kvfault wraps a corekv.TxnStore so that the k-th storage operation issued while armed
// (get/has/set/delete/iterator open/next/value/seek, commit) returns an injected error.
package kvfault

import (
	"context"
	"errors"
	"fmt"
	"os"
	"runtime/debug"
	"sync"

	"github.com/sourcenetwork/corekv"
)

// ErrInjected is the root of every injected error.
var ErrInjected = errors.New("verif: injected storage fault")

type Control struct {
	mu     sync.Mutex
	armed  bool
	n      int
	failAt int
	fired  string
	Ops    []string
	keep   bool
}

// Arm starts counting; failAt = 0 only counts. keepLog records the operation kinds.
func (c *Control) Arm(failAt int, keepLog bool) {
	c.mu.Lock()
	defer c.mu.Unlock()
	c.armed, c.n, c.failAt, c.fired, c.Ops, c.keep = true, 0, failAt, "", nil, keepLog
}

// Disarm stops counting and returns the number of operations seen and the kind of the failed one ("" if none).
func (c *Control) Disarm() (int, string) {
	c.mu.Lock()
	defer c.mu.Unlock()
	c.armed = false
	return c.n, c.fired
}

func (c *Control) tick(kind string, key []byte) error {
	c.mu.Lock()
	defer c.mu.Unlock()
	if !c.armed {
		return nil
	}
	c.n++
	if c.keep {
		k := string(key)
		if len(k) > 40 {
			k = k[:40]
		}
		c.Ops = append(c.Ops, kind+" "+k)
	}
	if c.failAt == c.n {
		c.fired = kind
		if os.Getenv("VERIF_DEBUG") != "" {
			fmt.Fprintf(os.Stderr, "FAULT op #%d %s %q\n%s\n", c.n, kind, key, debug.Stack())
		}
		return fmt.Errorf("%w: op #%d %s", ErrInjected, c.n, kind)
	}
	return nil
}

type Store struct {
	corekv.TxnStore
	C *Control
}

func Wrap(s corekv.TxnStore) *Store { return &Store{TxnStore: s, C: &Control{}} }

func (s *Store) NewTxn(readonly bool) corekv.Txn {
	return &txn{Txn: s.TxnStore.NewTxn(readonly), c: s.C}
}
func (s *Store) Get(ctx context.Context, key []byte) ([]byte, error) {
	if err := s.C.tick("get", key); err != nil {
		return nil, err
	}
	return s.TxnStore.Get(ctx, key)
}
func (s *Store) Has(ctx context.Context, key []byte) (bool, error) {
	if err := s.C.tick("has", key); err != nil {
		return false, err
	}
	return s.TxnStore.Has(ctx, key)
}
func (s *Store) Set(ctx context.Context, key, value []byte) error {
	if err := s.C.tick("set", key); err != nil {
		return err
	}
	return s.TxnStore.Set(ctx, key, value)
}
func (s *Store) Delete(ctx context.Context, key []byte) error {
	if err := s.C.tick("delete", key); err != nil {
		return err
	}
	return s.TxnStore.Delete(ctx, key)
}
func (s *Store) Iterator(ctx context.Context, o corekv.IterOptions) (corekv.Iterator, error) {
	if err := s.C.tick("iterator", o.Prefix); err != nil {
		return nil, err
	}
	it, err := s.TxnStore.Iterator(ctx, o)
	if err != nil {
		return nil, err
	}
	return &iter{Iterator: it, c: s.C}, nil
}

type txn struct {
	corekv.Txn
	c *Control
}

func (t *txn) Get(ctx context.Context, key []byte) ([]byte, error) {
	if err := t.c.tick("get", key); err != nil {
		return nil, err
	}
	return t.Txn.Get(ctx, key)
}
func (t *txn) Has(ctx context.Context, key []byte) (bool, error) {
	if err := t.c.tick("has", key); err != nil {
		return false, err
	}
	return t.Txn.Has(ctx, key)
}
func (t *txn) Set(ctx context.Context, key, value []byte) error {
	if err := t.c.tick("set", key); err != nil {
		return err
	}
	return t.Txn.Set(ctx, key, value)
}
func (t *txn) Delete(ctx context.Context, key []byte) error {
	if err := t.c.tick("delete", key); err != nil {
		return err
	}
	return t.Txn.Delete(ctx, key)
}
func (t *txn) Iterator(ctx context.Context, o corekv.IterOptions) (corekv.Iterator, error) {
	if err := t.c.tick("iterator", o.Prefix); err != nil {
		return nil, err
	}
	it, err := t.Txn.Iterator(ctx, o)
	if err != nil {
		return nil, err
	}
	return &iter{Iterator: it, c: t.c}, nil
}
func (t *txn) Commit() error {
	if err := t.c.tick("commit", nil); err != nil {
		t.Txn.Discard() // the commit did not happen
		return err
	}
	return t.Txn.Commit()
}

type iter struct {
	corekv.Iterator
	c *Control
}

func (i *iter) Next() (bool, error) {
	if err := i.c.tick("next", nil); err != nil {
		return false, err
	}
	return i.Iterator.Next()
}
func (i *iter) Value() ([]byte, error) {
	if err := i.c.tick("value", nil); err != nil {
		return nil, err
	}
	return i.Iterator.Value()
}
func (i *iter) Seek(k []byte) (bool, error) {
	if err := i.c.tick("seek", k); err != nil {
		return false, err
	}
	return i.Iterator.Seek(k)
}
