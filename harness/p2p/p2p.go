// Package p2p runs real DefraDB nodes with real libp2p peers on the loopback interface (C15, C16).
package p2p

import (
	"context"
	"fmt"
	"sync"
	"time"

	"github.com/sourcenetwork/corekv"
	"github.com/sourcenetwork/immutable"

	"github.com/sourcenetwork/defradb/acp/dac"
	"github.com/sourcenetwork/defradb/crypto"
	"github.com/sourcenetwork/defradb/internal/db"
	"github.com/sourcenetwork/defradb/net"
	"github.com/sourcenetwork/defradb/net/config"
	"github.com/sourcenetwork/defradb/verif/cluster"
)

type keepOpen struct{ corekv.TxnStore }

func (keepOpen) Close() error { return nil }

// Host is a node (database + network peer) that can be taken off the network or restarted on its store.
type Host struct {
	Name   string
	store  corekv.TxnStore
	key    []byte
	addr   string
	retry  []time.Duration
	Node   *cluster.Node
	Peer   *net.Peer
	mu     sync.Mutex
	pubsub bool
}

func NewHost(ctx context.Context, name string, retry []time.Duration, pubsub bool) (*Host, error) {
	s, err := cluster.NewBadgerMem()
	if err != nil {
		return nil, err
	}
	k, err := crypto.GenerateEd25519()
	if err != nil {
		return nil, err
	}
	h := &Host{Name: name, store: s, key: k, addr: "/ip4/127.0.0.1/tcp/0", retry: retry, pubsub: pubsub}
	if err := h.StartDB(ctx); err != nil {
		return nil, err
	}
	if err := h.StartPeer(ctx); err != nil {
		return nil, err
	}
	// keep the port for later restarts
	for _, a := range h.Peer.ListenAddrs() {
		h.addr = a.String()
		break
	}
	return h, nil
}

func (h *Host) StartDB(ctx context.Context) error {
	n, err := cluster.NewNode(ctx, h.Name, cluster.Options{Store: keepOpen{h.store}})
	if err != nil {
		return err
	}
	h.Node = n
	return nil
}

func (h *Host) StartPeer(ctx context.Context) error {
	var lastErr error
	for i := 0; i < 20; i++ {
		p, err := net.NewPeer(ctx, h.Node.DB.Events(), immutable.None[dac.DocumentACP](), h.Node.DB,
			config.WithListenAddresses(h.addr), config.WithPrivateKey(h.key), config.WithRetryInterval(h.retry),
			config.WithEnablePubSub(h.pubsub), config.WithEnableRelay(false))
		if err == nil {
			h.Peer = p
			return nil
		}
		lastErr = err
		time.Sleep(150 * time.Millisecond) // the port may still be closing
	}
	return fmt.Errorf("start peer %s: %w", h.Name, lastErr)
}

// NetDown takes the peer off the network; the database keeps running.
func (h *Host) NetDown() {
	if h.Peer != nil {
		h.Peer.Close()
		h.Peer = nil
	}
}

// Stop stops the whole process (peer and database); the store is kept.
func (h *Host) Stop() {
	h.NetDown()
	if h.Node != nil {
		h.Node.Close()
		h.Node = nil
	}
}

// DBOf maps a *db.DB to its host (for gate callbacks).
func DBOf(hosts []*Host, d *db.DB) *Host {
	for _, h := range hosts {
		if h.Node != nil && h.Node.DB == d {
			return h
		}
	}
	return nil
}
