package queryrun

import (
	"context"
	"errors"
	"fmt"
	"math/rand"
	"os"
	"strings"

	"github.com/sourcenetwork/immutable"

	"github.com/sourcenetwork/defradb/acp/identity"
	"github.com/sourcenetwork/defradb/crypto"
	"github.com/sourcenetwork/defradb/verif/cluster"
)

// MutationOps are the request mutation operators of the no-panic clause of C08.
var MutationOps = []string{"drop-brace", "drop-paren", "unknown-field", "wrong-operand-kind", "null-operand", "deep-nesting",
	"huge-limit", "negative-limit", "empty-selection", "unknown-root", "unknown-operator", "duplicate-arg", "truncate", "unicode",
	"array-operand", "object-operand", "alias-storm", "empty-list-op", "fragment", "variables"}

// Mutate applies mutation operator k to a well-formed request.
func Mutate(req string, k int, rng *rand.Rand) (string, string) {
	op := MutationOps[k%len(MutationOps)]
	pick := func(sub string) int {
		var idx []int
		for i := 0; i+len(sub) <= len(req); i++ {
			if req[i:i+len(sub)] == sub {
				idx = append(idx, i)
			}
		}
		if len(idx) == 0 {
			return -1
		}
		return idx[rng.Intn(len(idx))]
	}
	switch op {
	case "drop-brace":
		if i := pick("}"); i >= 0 {
			return req[:i] + req[i+1:], op
		}
	case "drop-paren":
		if i := pick(")"); i >= 0 {
			return req[:i] + req[i+1:], op
		}
	case "unknown-field":
		for _, f := range []string{"s:", "i:", "b:", "j:"} {
			if i := pick(f); i >= 0 {
				return req[:i] + "zz" + req[i+1:], op
			}
		}
		return strings.Replace(req, "{ k s i b j }", "{ k zz }", 1), op
	case "wrong-operand-kind":
		for _, f := range []string{"_eq: ", "_gt: ", "_ge: ", "_lt: ", "_le: ", "_ne: "} {
			if i := pick(f); i >= 0 {
				j := i + len(f)
				e := strings.IndexAny(req[j:], "}, ")
				return req[:j] + `{a: [1.5, "x"]}` + req[j+e:], op
			}
		}
	case "null-operand":
		for _, f := range []string{"_in: ", "_nin: ", "_like: ", "_and: ", "_or: ", "_not: ", "filter: ", "order: "} {
			if i := pick(f); i >= 0 {
				j := i + len(f)
				depth, e := 0, j
				for e < len(req) {
					c := req[e]
					if c == '{' || c == '[' {
						depth++
					} else if c == '}' || c == ']' {
						if depth == 0 {
							break
						}
						depth--
						if depth == 0 {
							e++
							break
						}
					} else if depth == 0 && (c == ',' || c == ')') {
						break
					}
					e++
				}
				return req[:j] + "null" + req[e:], op
			}
		}
	case "deep-nesting":
		d := 40 + rng.Intn(200)
		return "query { T(filter: " + strings.Repeat("{_not: ", d) + "{i: {_eq: 1}}" + strings.Repeat("}", d) + ") { k } }", op
	case "huge-limit":
		return strings.Replace(req, "T(", "T(limit: 18446744073709551615, offset: 9223372036854775807, ", 1), op
	case "negative-limit":
		return strings.Replace(req, "T(", "T(limit: -1, offset: -5, ", 1), op
	case "empty-selection":
		return strings.Replace(req, "{ k s i b j }", "{ }", 1), op
	case "unknown-root":
		return strings.Replace(req, "T", "Nope", 1), op
	case "unknown-operator":
		for _, f := range []string{"_eq", "_in", "_like", "_and", "_gt"} {
			if i := pick(f); i >= 0 {
				return req[:i] + "_zz" + req[i+len(f):], op
			}
		}
	case "duplicate-arg":
		return strings.Replace(req, "T(", "T(limit: 1, limit: 2, ", 1), op
	case "truncate":
		return req[:rng.Intn(len(req))], op
	case "unicode":
		return strings.Replace(req, `"`, "\"\u0000�\U0001F600", 1), op
	case "array-operand":
		for _, f := range []string{"_eq: ", "_like: "} {
			if i := pick(f); i >= 0 {
				return req[:i+len(f)] + "[" + req[i+len(f):], op
			}
		}
	case "object-operand":
		return strings.Replace(req, "order: [", "order: [{i: {i: ASC}}, ", 1), op
	case "alias-storm":
		var sb strings.Builder
		sb.WriteString("query { ")
		for i := 0; i < 60; i++ {
			fmt.Fprintf(&sb, "a%d: T(limit: 1) { k } ", i)
		}
		sb.WriteString("}")
		return sb.String(), op
	case "empty-list-op":
		return "query { T(filter: {_and: [], _or: [], i: {_in: []}}, order: [], groupBy: []) { k } }", op
	case "fragment":
		return "query { T { ...F } } fragment F on T { k ...F }", op
	case "variables":
		return "query ($x: Int!) { T(limit: $x, filter: {i: {_eq: $y}}) { k } }", op
	}
	return req + " }", "extra-brace"
}

// RootRequests exercises every root field on signed data with selection sets that omit / include optional
// sub-objects (C08: "no request makes the database panic or hang").
func RootRequests(docID, cid string) []string {
	sel := [][]string{{"cid"}, {"cid", "height"}, {"cid", "links { cid name }"}, {"cid", "signature { type identity value }"},
		{"signature { value }"}, {"cid", "docID", "fieldName", "schemaVersionId", "delta"}, {"_count(field: links)"}, {"cid", "links { name }", "signature { identity }"}}
	var out []string
	for _, s := range sel {
		body := strings.Join(s, " ")
		out = append(out,
			fmt.Sprintf(`query { commits { %s } }`, body),
			fmt.Sprintf(`query { commits(docID: %q) { %s } }`, docID, body),
			fmt.Sprintf(`query { commits(cid: %q) { %s } }`, cid, body),
			fmt.Sprintf(`query { commits(docID: %q, fieldName: "i", order: {height: DESC}, limit: 1) { %s } }`, docID, body),
			fmt.Sprintf(`query { latestCommits(docID: %q) { %s } }`, docID, body),
			fmt.Sprintf(`query { commits(groupBy: [height]) { height _group { %s } } }`, body),
		)
	}
	out = append(out,
		fmt.Sprintf(`query { T(cid: %q) { k s } }`, cid),
		fmt.Sprintf(`query { T(cid: %q, docID: %q) { k s _version { cid signature { type } } } }`, cid, docID),
		`query { T { _version { cid height signature { identity } } } }`,
		`query { T { _version { cid } _docID _deleted } }`,
		fmt.Sprintf(`query { T(docID: %q, showDeleted: true) { k } }`, docID),
		`query { T(docID: "bae-not-a-docid") { k } }`,
		`query { T(cid: "not-a-cid") { k } }`,
		`query { commits(cid: "bafybeigdyrzt5sfp7udm7hu76uh7y26nf3efuylqabf3oclgtqy55fbzdi") { cid } }`,
		`query { latestCommits(docID: "") { cid } }`,
		`query { __schema { types { name fields { name } } } }`,
		`query { __type(name: "T") { fields { name type { name kind ofType { name } } } } }`,
		`query @explain { T(filter: {i: {_gt: 0}}) { k } }`,
		`query @explain(type: execute) { T(order: {i: ASC}, limit: 2) { k } }`,
		`query @explain(type: debug) { _count(T: {}) }`,
		`mutation { update_T(filter: {i: {_gt: 100}}, input: {i: 1}) { k } }`,
		`mutation { delete_T(docID: "bae-not-a-docid") { k } }`,
		`mutation { create_T(input: {k: 1.5}) { k } }`,
		`mutation { create_T(input: []) { k } }`,
		`mutation { create_T(input: [null]) { k } }`,
		`mutation { upsert_T(filter: {}, create: {}, update: {}) { k } }`,
		`subscription { T(filter: {i: {_zz: 1}}) { k } }`,
		``, `{`, `query`, `query { }`, `query { T { k } } query { T { s } }`,
	)
	return out
}

type NoPanicResult struct {
	Requests int            `json:"requests"`
	Errors   int            `json:"errors"`
	Data     int            `json:"data"`
	ByOp     map[string]int `json:"by_op"`
	Crashes  []Mismatch     `json:"crashes"`
}

// NoPanic runs mutated requests and root-field requests on a node with signed commits.
func NoPanic(ctx context.Context, cases []Case, seed int64, max int, skipOps map[string]bool, progress string) (*NoPanicResult, error) {
	res := &NoPanicResult{ByOp: map[string]int{}}
	priv, err := crypto.GenerateKey(crypto.KeyTypeSecp256k1)
	if err != nil {
		return nil, err
	}
	ident, err := identity.FromPrivateKey(priv)
	if err != nil {
		return nil, err
	}
	n, err := cluster.NewNode(ctx, "np", cluster.Options{Identity: immutable.Some[identity.Identity](ident), Signing: true})
	if err != nil {
		return nil, err
	}
	defer n.Close()
	if _, err := n.DB.AddSchema(ctx, BaseSDL); err != nil {
		return nil, err
	}
	var docID string
	for k := 1; k <= 4; k++ {
		d, err := n.Exec(ctx, fmt.Sprintf(`mutation { create_T(input: {k: %d, s: "a", i: %d, b: true}) { _docID } }`, k, k))
		if err != nil {
			return nil, err
		}
		docID = cluster.Rows(d, "create_T")[0]["_docID"].(string)
	}
	if _, err := n.Exec(ctx, fmt.Sprintf(`mutation { update_T(docID: %q, input: {i: 9}) { k } }`, docID)); err != nil {
		return nil, err
	}
	hd, err := n.Exec(ctx, fmt.Sprintf(`query { latestCommits(docID: %q) { cid } }`, docID))
	if err != nil {
		return nil, err
	}
	cid := cluster.Rows(hd, "latestCommits")[0]["cid"].(string)
	rng := rand.New(rand.NewSource(seed))
	run := func(op, req string) {
		if skipOps[op] {
			return
		}
		if progress != "" {
			// a request that kills the process (fatal error) cannot be recovered: leave a note for the parent
			os.WriteFile(progress, []byte(op+"\n"+req), 0o644)
		}
		res.Requests++
		res.ByOp[op]++
		_, err := n.Exec(ctx, req)
		switch {
		case err == nil:
			res.Data++
		case errors.Is(err, cluster.ErrPanic), errors.Is(err, cluster.ErrHang):
			res.Crashes = append(res.Crashes, Mismatch{Kind: "crash:" + op, Request: req, Msg: err.Error()})
		default:
			res.Errors++
		}
	}
	for _, r := range RootRequests(docID, cid) {
		run("root", r)
	}
	for i := range cases {
		if max > 0 && i >= max {
			break
		}
		req := Render(cases[i].Q)
		m, op := Mutate(req, rng.Intn(len(MutationOps)), rng)
		run(op, m)
	}
	if progress != "" {
		os.Remove(progress)
	}
	return res, nil
}
