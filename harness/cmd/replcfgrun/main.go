// Command replcfgrun replays behaviours of spec/ReplConfig.tla on real libp2p peers (C14: the replicator configuration of
// a restarted node decides what its peers receive exactly as if it had never stopped).
package main

import (
	"bufio"
	"context"
	"encoding/json"
	"flag"
	"fmt"
	"os"
	"sort"
	"strings"
	"time"

	"github.com/sourcenetwork/defradb/verif/cluster"
	"github.com/sourcenetwork/defradb/verif/p2p"
)

type obs struct {
	Cfg map[string][]string `json:"cfg"`
	Got map[string][]int    `json:"got"`
}

type step struct {
	Op   string   `json:"op"`
	P    string   `json:"p"`
	Cols []string `json:"cols"`
	Col  string   `json:"col"`
	ID   int      `json:"id"`
	Obs  obs      `json:"obs"`
}

type violation struct {
	Property string `json:"property"`
	Kind     string `json:"kind"`
	Step     int    `json:"step"`
	Msg      string `json:"msg"`
	Data     []step `json:"behaviour_data,omitempty"`
}

type result struct {
	Behaviours int         `json:"behaviours"`
	Steps      int         `json:"steps"`
	Restarts   int         `json:"restarts"`
	Compared   int         `json:"comparisons"`
	Violations []violation `json:"violations"`
	Errors     []string    `json:"harness_errors"`
}

const sdl = "type User {\n name: String\n}\ntype Book {\n name: String\n}"

var res result

func held(ctx context.Context, n *cluster.Node) (map[string]bool, error) {
	out := map[string]bool{}
	for _, col := range []string{"User", "Book"} {
		d, err := n.Exec(ctx, fmt.Sprintf(`query { %s { name } }`, col))
		if err != nil {
			return nil, err
		}
		for _, r := range cluster.Rows(d, col) {
			out[fmt.Sprint(r["name"])] = true
		}
	}
	return out, nil
}

func names(ids []int) []string {
	var out []string
	for _, i := range ids {
		out = append(out, fmt.Sprintf("d%d", i))
	}
	sort.Strings(out)
	return out
}

func keys(m map[string]bool) []string {
	var out []string
	for k := range m {
		out = append(out, k)
	}
	sort.Strings(out)
	return out
}

func replay(ctx context.Context, b []step) {
	res.Behaviours++
	fail := func(f string, a ...any) { res.Errors = append(res.Errors, fmt.Sprintf(f, a...)) }
	viol := func(kind string, si int, f string, a ...any) {
		res.Violations = append(res.Violations, violation{Property: "C14", Kind: kind, Step: si, Msg: fmt.Sprintf(f, a...), Data: b})
	}
	retry := []time.Duration{200 * time.Millisecond, 300 * time.Millisecond, 500 * time.Millisecond}
	hosts := map[string]*p2p.Host{}
	for _, name := range []string{"A", "B", "C"} {
		h, err := p2p.NewHost(ctx, name, retry, true)
		if err != nil {
			fail("host %s: %v", name, err)
			return
		}
		defer h.Stop()
		if _, err := h.Node.DB.AddSchema(ctx, sdl); err != nil {
			fail("schema: %v", err)
			return
		}
		hosts[name] = h
	}
	a := hosts["A"]
	connect := func() bool {
		for _, p := range []string{"B", "C"} {
			if err := a.Peer.Connect(ctx, hosts[p].Peer.PeerInfo()); err != nil {
				fail("connect %s: %v", p, err)
				return false
			}
		}
		return true
	}
	if !connect() {
		return
	}
	for si, st := range b {
		res.Steps++
		switch st.Op {
		case "setrep":
			if err := a.Peer.SetReplicator(ctx, hosts[st.P].Peer.PeerInfo(), st.Cols...); err != nil {
				viol("op-refused:setrep", si, "SetReplicator(%s, %v) refused: %v", st.P, st.Cols, err)
				return
			}
		case "delrep":
			if err := a.Peer.DeleteReplicator(ctx, hosts[st.P].Peer.PeerInfo(), st.Cols...); err != nil {
				viol("op-refused:delrep", si, "DeleteReplicator(%s, %v) refused: %v", st.P, st.Cols, err)
				return
			}
		case "write":
			if _, err := a.Node.Exec(ctx, fmt.Sprintf(`mutation { create_%s(input: {name: "d%d"}) { _docID } }`, st.Col, st.ID)); err != nil {
				fail("write: %v", err)
				return
			}
		case "restart":
			res.Restarts++
			a.Stop()
			if err := a.StartDB(ctx); err != nil {
				viol("reopen-failed", si, "the node could not be reopened on its store: %v", err)
				return
			}
			if err := a.StartPeer(ctx); err != nil {
				viol("reopen-failed", si, "the peer could not be restarted: %v", err)
				return
			}
			if !connect() {
				return
			}
		}
		// the persisted configuration
		reps, err := a.Peer.GetAllReplicators(ctx)
		if err != nil {
			viol("config-unreadable", si, "GetAllReplicators after %s: %v", st.Op, err)
			return
		}
		gotCfg := map[string][]string{"B": {}, "C": {}}
		for _, r := range reps {
			for _, p := range []string{"B", "C"} {
				if r.Info.ID == hosts[p].Peer.PeerInfo().ID {
					gotCfg[p] = append([]string{}, r.CollectionIDs...)
				}
			}
		}
		res.Compared++
		for _, p := range []string{"B", "C"} {
			if len(gotCfg[p]) != len(st.Obs.Cfg[p]) {
				viol("config", si, "after %s the node reports %d replicated collections for peer %s, the specification says %v", st.Op, len(gotCfg[p]), p, st.Obs.Cfg[p])
				return
			}
		}
		// what the peers hold: everything owed arrives, nothing else does
		deadline := time.Now().Add(12 * time.Second)
		for {
			missing := ""
			for _, p := range []string{"B", "C"} {
				h, err := held(ctx, hosts[p].Node)
				if err != nil {
					fail("query %s: %v", p, err)
					return
				}
				for _, n := range names(st.Obs.Got[p]) {
					if !h[n] {
						missing = fmt.Sprintf("peer %s lacks %s (holds %v, owed %v)", p, n, keys(h), names(st.Obs.Got[p]))
					}
				}
			}
			if missing == "" {
				break
			}
			if time.Now().After(deadline) {
				viol("not-replicated", si, "12s after %s (step %d): %s; configuration %v", st.Op, si, missing, st.Obs.Cfg)
				return
			}
			time.Sleep(150 * time.Millisecond)
		}
		if st.Op == "write" || st.Op == "setrep" || st.Op == "restart" {
			time.Sleep(900 * time.Millisecond)
			for _, p := range []string{"B", "C"} {
				h, _ := held(ctx, hosts[p].Node)
				owed := map[string]bool{}
				for _, n := range names(st.Obs.Got[p]) {
					owed[n] = true
				}
				res.Compared++
				for n := range h {
					if !owed[n] {
						viol("replicated-to-unconfigured-peer", si, "after %s peer %s holds %s, a document of a collection that is not (and never was) replicated to it; it is owed %v, configuration %v", st.Op, p, n, names(st.Obs.Got[p]), st.Obs.Cfg)
						return
					}
				}
			}
		}
	}
}

func main() {
	beh := flag.String("beh", "", "behaviours (ndjson)")
	out := flag.String("out", "", "result")
	budget := flag.Duration("budget", 0, "budget")
	max := flag.Int("max", 0, "max behaviours")
	flag.Parse()
	ctx := context.Background()
	data, err := os.ReadFile(*beh)
	if err != nil {
		fmt.Fprintln(os.Stderr, err)
		os.Exit(2)
	}
	start := time.Now()
	if t := strings.TrimSpace(string(data)); strings.HasPrefix(t, "{") {
		// a replay file written by bin/check
		var o struct {
			Data []step `json:"behaviour_data"`
		}
		if err := json.Unmarshal([]byte(t), &o); err != nil || o.Data == nil {
			fmt.Fprintln(os.Stderr, "bad replay file", err)
			os.Exit(2)
		}
		replay(ctx, o.Data)
	} else {
		sc := bufio.NewScanner(strings.NewReader(string(data)))
		sc.Buffer(make([]byte, 1<<20), 1<<27)
		seen := map[string]bool{}
		for sc.Scan() {
			l := strings.TrimSpace(sc.Text())
			if l == "" || seen[l] {
				continue
			}
			seen[l] = true
			if l[0] == '"' {
				var inner string
				if err := json.Unmarshal([]byte(l), &inner); err != nil {
					inner = strings.ReplaceAll(l[1:len(l)-1], `""`, `"`)
				}
				l = inner
			}
			var b []step
			if err := json.Unmarshal([]byte(l), &b); err != nil {
				fmt.Fprintln(os.Stderr, "bad behaviour", err)
				os.Exit(2)
			}
			if (*max > 0 && res.Behaviours >= *max) || (*budget > 0 && time.Since(start) > *budget) || len(res.Violations) > 3 {
				break
			}
			replay(ctx, b)
		}
	}
	js, _ := json.MarshalIndent(res, "", " ")
	os.WriteFile(*out, js, 0o644)
	fmt.Printf("behaviours=%d steps=%d restarts=%d violations=%d errors=%d\n", res.Behaviours, res.Steps, res.Restarts, len(res.Violations), len(res.Errors))
}
