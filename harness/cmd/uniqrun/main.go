// Command uniqrun replays histories of spec/UniqueIndex.tla on a real node: a unique secondary index (single field or
// composite, present from the start or created later) accepts exactly the writes the specification accepts.
package main

import (
	"bufio"
	"context"
	"encoding/json"
	"flag"
	"fmt"
	"os"
	"sort"
	"strings"
	"time"

	"github.com/sourcenetwork/defradb/client"
	"github.com/sourcenetwork/defradb/verif/cluster"
)

const null = -100

type obs struct {
	Rows    [][]int `json:"rows"`
	Indexed bool    `json:"indexed"`
}

type step struct {
	Op    string `json:"op"`
	D     int    `json:"d"`
	U     int    `json:"u"`
	W     int    `json:"w"`
	Route string `json:"route"`
	Res   string `json:"res"`
	Obs   obs    `json:"obs"`
}

type violation struct {
	Property string `json:"property"`
	Kind     string `json:"kind"`
	Step     int    `json:"step"`
	Msg      string `json:"msg"`
	Data     []step `json:"behaviour_data,omitempty"`
}

type result struct {
	Behaviours int            `json:"behaviours"`
	Steps      int            `json:"steps"`
	Refused    int            `json:"refused_writes"`
	Compared   int            `json:"comparisons"`
	ByOp       map[string]int `json:"by_op"`
	Violations []violation    `json:"violations"`
	Errors     []string       `json:"harness_errors"`
}

var res = result{ByOp: map[string]int{}}

func lit(v int) string {
	if v == null {
		return "null"
	}
	return fmt.Sprint(v)
}

func val(v int) any {
	if v == null {
		return nil
	}
	return int64(v)
}

func indexReq(composite bool) client.IndexCreateRequest {
	r := client.IndexCreateRequest{Name: "uniq", Unique: true, Fields: []client.IndexedFieldDescription{{Name: "u"}}}
	if composite {
		r.Fields = append(r.Fields, client.IndexedFieldDescription{Name: "w"})
	}
	return r
}

func replay(ctx context.Context, b []step, composite, late bool) {
	res.Behaviours++
	viol := func(kind string, si int, f string, a ...any) {
		if len(res.Violations) < 20 {
			res.Violations = append(res.Violations, violation{Property: "C07", Kind: kind, Step: si, Msg: fmt.Sprintf(f, a...), Data: b})
		}
	}
	n, err := cluster.NewNode(ctx, "u", cluster.Options{})
	if err != nil {
		res.Errors = append(res.Errors, err.Error())
		return
	}
	defer n.Close()
	sdl := "type T {\n k: Int\n u: Int\n w: Int\n}"
	if !late {
		if composite {
			sdl = "type T @index(unique: true, includes: [{field: \"u\"}, {field: \"w\"}]) {\n k: Int\n u: Int\n w: Int\n}"
		} else {
			sdl = "type T {\n k: Int\n u: Int @index(unique: true)\n w: Int\n}"
		}
	}
	if _, err := n.DB.AddSchema(ctx, sdl); err != nil {
		res.Errors = append(res.Errors, "schema: "+err.Error())
		return
	}
	ids := map[int]string{}
	for si, st := range b {
		res.Steps++
		res.ByOp[st.Op]++
		var opErr error
		switch st.Op {
		case "create":
			// explicit nulls for even documents, omitted ones for odd documents
			parts := []string{fmt.Sprintf("k: %d", st.D)}
			for _, fv := range []struct {
				f string
				v int
			}{{"u", st.U}, {"w", st.W}} {
				if fv.v == null && st.D%2 == 1 {
					continue
				}
				parts = append(parts, fv.f+": "+lit(fv.v))
			}
			d, err := n.Exec(ctx, "mutation { create_T(input: {"+strings.Join(parts, ", ")+"}) { _docID } }")
			opErr = err
			if err == nil {
				ids[st.D] = cluster.Rows(d, "create_T")[0]["_docID"].(string)
			}
		case "update":
			if st.Route == "save" {
				col, err := n.DB.GetCollectionByName(ctx, "T")
				if err == nil {
					id, _ := client.NewDocIDFromString(ids[st.D])
					var doc *client.Document
					doc, err = col.Get(ctx, id, false)
					if err == nil {
						if err = doc.Set("u", val(st.U)); err == nil {
							if err = doc.Set("w", val(st.W)); err == nil {
								err = col.Save(ctx, doc)
							}
						}
					}
				}
				opErr = err
			} else {
				_, opErr = n.Exec(ctx, fmt.Sprintf(`mutation { update_T(docID: %q, input: {u: %s, w: %s}) { _docID } }`, ids[st.D], lit(st.U), lit(st.W)))
			}
		case "updateall":
			_, opErr = n.Exec(ctx, fmt.Sprintf(`mutation { update_T(filter: {k: {_ge: 0}}, input: {u: %s}) { _docID } }`, lit(st.U)))
		case "delete":
			_, opErr = n.Exec(ctx, fmt.Sprintf(`mutation { delete_T(docID: %q) { _docID } }`, ids[st.D]))
		case "createindex":
			col, err := n.DB.GetCollectionByName(ctx, "T")
			if err == nil {
				_, err = col.CreateIndex(ctx, indexReq(composite))
			}
			opErr = err
		}
		got := "ok"
		if opErr != nil {
			got = "refused"
			res.Refused++
		}
		if got != st.Res {
			if st.Res == "ok" {
				viol("write-refused", si, "%s (d=%d u=%s w=%s route=%s) was refused although it leaves no two live documents with the same indexed value: %v", st.Op, st.D, lit(st.U), lit(st.W), st.Route, opErr)
			} else {
				viol("duplicate-accepted", si, "%s (d=%d u=%s w=%s route=%s) was accepted although it leaves two live documents sharing a non-null indexed value", st.Op, st.D, lit(st.U), lit(st.W), st.Route)
			}
			return
		}
		// the live documents, read by a scan and by a query the index can serve
		want := []string{}
		for _, r := range st.Obs.Rows {
			want = append(want, fmt.Sprint(r))
		}
		sort.Strings(want)
		for _, q := range []string{`query { T { k u w } }`, `query { T(filter: {_or: [{u: {_ge: -5}}, {u: {_eq: null}}]}) { k u w } }`, `query { T(order: {u: ASC}) { k u w } }`} {
			d, err := n.Exec(ctx, q)
			if err != nil {
				viol("unreadable", si, "after %s: %s failed: %v", st.Op, q, err)
				return
			}
			var gotRows []string
			for _, row := range cluster.Rows(d, "T") {
				r := []int{0, null, null}
				for i, f := range []string{"k", "u", "w"} {
					if x, ok := row[f].(json.Number); ok {
						v, _ := x.Int64()
						r[i] = int(v)
					}
				}
				gotRows = append(gotRows, fmt.Sprint(r))
			}
			sort.Strings(gotRows)
			res.Compared++
			if strings.Join(gotRows, " ") != strings.Join(want, " ") {
				viol("documents", si, "after %s (%s) the query %s returns %v, the specification says %v", st.Op, st.Res, q, gotRows, want)
				return
			}
		}
	}
}

func main() {
	beh := flag.String("beh", "", "behaviours (ndjson)")
	out := flag.String("out", "", "result")
	composite := flag.Bool("composite", false, "unique index on (u, w)")
	late := flag.Bool("late", false, "the index is created by a step of the history")
	budget := flag.Duration("budget", 0, "budget")
	flag.Parse()
	ctx := context.Background()
	data, err := os.ReadFile(*beh)
	if err != nil {
		fmt.Fprintln(os.Stderr, err)
		os.Exit(2)
	}
	start := time.Now()
	if t := strings.TrimSpace(string(data)); strings.HasPrefix(t, "{") {
		var o struct {
			Data []step `json:"behaviour_data"`
			Msg  string `json:"msg"`
		}
		if err := json.Unmarshal([]byte(t), &o); err != nil || o.Data == nil {
			fmt.Fprintln(os.Stderr, "bad replay file", err)
			os.Exit(2)
		}
		replay(ctx, o.Data, *composite, *late)
	} else {
		sc := bufio.NewScanner(strings.NewReader(string(data)))
		sc.Buffer(make([]byte, 1<<20), 1<<27)
		seen := map[string]bool{}
		for sc.Scan() {
			l := strings.TrimSpace(sc.Text())
			if l == "" || seen[l] {
				continue
			}
			seen[l] = true
			if l[0] == '"' {
				var inner string
				if err := json.Unmarshal([]byte(l), &inner); err != nil {
					inner = strings.ReplaceAll(l[1:len(l)-1], `""`, `"`)
				}
				l = inner
			}
			var b []step
			if err := json.Unmarshal([]byte(l), &b); err != nil {
				fmt.Fprintln(os.Stderr, "bad behaviour", err)
				os.Exit(2)
			}
			if (*budget > 0 && time.Since(start) > *budget) || len(res.Violations) > 5 {
				break
			}
			replay(ctx, b, *composite, *late)
		}
	}
	js, _ := json.MarshalIndent(res, "", " ")
	os.WriteFile(*out, js, 0o644)
	fmt.Printf("behaviours=%d steps=%d refused=%d violations=%d errors=%d\n", res.Behaviours, res.Steps, res.Refused, len(res.Violations), len(res.Errors))
}
