// Command concrun drives one real node from several goroutines (requests, collection operations, index changes, incoming
// merges through the event bus, a shared concurrent transaction) and records the history of invocations and returns for
// linearizability checking against spec/trace/Trace_Concurrent.tla (C16). It is built with -race.
package main

import (
	"context"
	"encoding/json"
	"errors"
	"flag"
	"fmt"
	"math/rand"
	"os"
	"sort"
	"strings"
	"sync"
	"sync/atomic"
	"time"

	"github.com/ipfs/go-cid"
	"github.com/sourcenetwork/corekv"

	"github.com/sourcenetwork/defradb/client"
	"github.com/sourcenetwork/defradb/event"
	"github.com/sourcenetwork/defradb/internal/db"
	"github.com/sourcenetwork/defradb/verif/cluster"
)

type ev struct {
	Seq int64  `json:"-"`
	Ev  string `json:"ev"`
	ID  int    `json:"id"`
	Op  string `json:"op"`
	D   string `json:"d"`
	K   int    `json:"k"`
	Res string `json:"res"`
	Val int    `json:"val"`
	Err string `json:"err,omitempty"`
}

var (
	seq    atomic.Int64
	nextID atomic.Int64
)

type recorder struct {
	mu  sync.Mutex
	evs []ev
}

func (r *recorder) inv(op, d string, k int) int {
	id := int(nextID.Add(1))
	e := ev{Seq: seq.Add(1), Ev: "inv", ID: id, Op: op, D: d, K: k}
	r.mu.Lock()
	r.evs = append(r.evs, e)
	r.mu.Unlock()
	return id
}

func (r *recorder) ret(id int, op, d string, k int, res string, val int, err error) {
	e := ev{Ev: "ret", ID: id, Op: op, D: d, K: k, Res: res, Val: val}
	if err != nil {
		e.Err = err.Error()
		if len(e.Err) > 200 {
			e.Err = e.Err[:200]
		}
	}
	e.Seq = seq.Add(1)
	r.mu.Lock()
	r.evs = append(r.evs, e)
	r.mu.Unlock()
}

func classify(err error) string {
	if err == nil {
		return "ok"
	}
	if errors.Is(err, corekv.ErrTxnConflict) || strings.Contains(err.Error(), "onflict") {
		return "conflict"
	}
	if errors.Is(err, cluster.ErrPanic) {
		return "panic"
	}
	if errors.Is(err, cluster.ErrHang) {
		return "hang"
	}
	return "err"
}

const sdl = "type T {\n name: String\n c: Int @crdt(type: pncounter)\n v: Int\n}"

func main() {
	out := flag.String("out", "", "history ndjson")
	stats := flag.String("stats", "", "stats json")
	seed := flag.Int64("seed", 1, "seed")
	goroutines := flag.Int("g", 6, "goroutines")
	ops := flag.Int("ops", 8, "operations per goroutine")
	indexChurn := flag.Bool("indexchurn", true, "include concurrent index create/drop")
	flag.Parse()
	ctx := context.Background()
	a, err := cluster.NewNode(ctx, "A", cluster.Options{})
	must(err)
	b, err := cluster.NewNode(ctx, "B", cluster.Options{})
	must(err)
	cols, err := a.DB.AddSchema(ctx, sdl)
	must(err)
	_, err = b.DB.AddSchema(ctx, sdl)
	must(err)
	colID := cols[0].CollectionID
	docs := map[string]string{}
	for _, d := range []string{"d1", "d2"} {
		for _, n := range []*cluster.Node{a, b} {
			data, err := n.Exec(ctx, fmt.Sprintf(`mutation { create_T(input: {name: %q, c: 0}) { _docID } }`, d))
			must(err)
			docs[d] = cluster.Rows(data, "create_T")[0]["_docID"].(string)
		}
	}
	rec := &recorder{}
	// merge completions / failures of node A
	mergeDone := make(chan string, 1024)
	sub, err := a.DB.Events().Subscribe(event.MergeCompleteName)
	must(err)
	go func() {
		for m := range sub.Message() {
			if mc, ok := m.Data.(event.MergeComplete); ok {
				mergeDone <- "ok:" + mc.Merge.Cid.String()
			}
		}
	}()
	db.VerifGate = func(point string, d *db.DB, key string) {
		if point == "merge.failed" && d == a.DB {
			mergeDone <- "failed:" + key
		}
	}
	var wg sync.WaitGroup
	panics := atomic.Int64{}
	worker := func(g int) {
		defer wg.Done()
		defer func() {
			if r := recover(); r != nil {
				panics.Add(1)
				fmt.Fprintln(os.Stderr, "PANIC in worker:", r)
			}
		}()
		rng := rand.New(rand.NewSource(*seed*1000 + int64(g)))
		for i := 0; i < *ops; i++ {
			d := []string{"d1", "d2"}[rng.Intn(2)]
			switch x := rng.Intn(10); {
			case x < 4: // increment through a request
				k := 1 + rng.Intn(3)
				if rng.Intn(4) == 0 {
					k = -k
				}
				id := rec.inv("inc", d, k)
				_, err := a.Exec(ctx, fmt.Sprintf(`mutation { update_T(docID: %q, input: {c: %d}) { _docID } }`, docs[d], k))
				rec.ret(id, "inc", d, k, classify(err), 0, err)
			case x < 6: // read
				id := rec.inv("read", d, 0)
				data, err := a.Exec(ctx, fmt.Sprintf(`query { T(docID: %q) { c } }`, docs[d]))
				val := 0
				if err == nil && len(cluster.Rows(data, "T")) == 1 {
					if n, ok := cluster.Rows(data, "T")[0]["c"].(json.Number); ok {
						v, _ := n.Int64()
						val = int(v)
					}
				} else if err == nil {
					err = fmt.Errorf("document not returned")
				}
				rec.ret(id, "read", d, 0, classify(err), val, err)
			case x < 8: // create through the collection API
				key := fmt.Sprintf("g%d-%d", g, i)
				id := rec.inv("create", key, 0)
				col, err := a.DB.GetCollectionByName(ctx, "T")
				if err == nil {
					var doc *client.Document
					doc, err = client.NewDocFromMap(map[string]any{"name": key, "v": int64(i)}, col.Definition())
					if err == nil {
						err = col.Create(ctx, doc)
					}
				}
				rec.ret(id, "create", key, 0, classify(err), 0, err)
			case x < 9: // existence of a key some goroutine may be creating
				key := fmt.Sprintf("g%d-%d", rng.Intn(*goroutines), rng.Intn(*ops))
				id := rec.inv("exists", key, 0)
				data, err := a.Exec(ctx, fmt.Sprintf(`query { T(filter: {name: {_eq: %q}}) { name } }`, key))
				rec.ret(id, "exists", key, 0, classify(err), len(cluster.Rows(data, "T")), err)
			default: // index churn
				if !*indexChurn {
					continue
				}
				id := rec.inv("index", "v", 0)
				col, err := a.DB.GetCollectionByName(ctx, "T")
				if err == nil {
					name := fmt.Sprintf("idx_g%d", g)
					_, err = col.CreateIndex(ctx, client.IndexCreateRequest{Name: name, Fields: []client.IndexedFieldDescription{{Name: "v"}}})
					if err == nil {
						err = col.DropIndex(ctx, name)
					}
				}
				rec.ret(id, "index", "v", 0, classify(err), 0, err)
			}
		}
	}
	// incoming merges: B increments, its commits reach A through the event bus while A is busy
	merger := func() {
		defer wg.Done()
		rng := rand.New(rand.NewSource(*seed*1000 + 999))
		pendingSum := map[string]int{}
		for i := 0; i < *ops; i++ {
			d := []string{"d1", "d2"}[rng.Intn(2)]
			k := 1 + rng.Intn(3)
			if _, err := b.Exec(ctx, fmt.Sprintf(`mutation { update_T(docID: %q, input: {c: %d}) { _docID } }`, docs[d], k)); err != nil {
				fmt.Fprintln(os.Stderr, "B update failed:", err)
				os.Exit(2)
			}
			pendingSum[d] += k
			hd, err := b.Exec(ctx, fmt.Sprintf(`query { latestCommits(docID: %q) { cid } }`, docs[d]))
			must(err)
			c, _ := cid.Decode(cluster.Rows(hd, "latestCommits")[0]["cid"].(string))
			_, err = cluster.CopyClosure(ctx, b, a, c)
			must(err)
			// the merge brings every increment of B that A has not merged yet
			id := rec.inv("merge", d, pendingSum[d])
			a.DB.Events().Publish(event.NewMessage(event.MergeName, event.Merge{DocID: docs[d], Cid: c, CollectionID: colID}))
			res := "hang"
			deadline := time.After(20 * time.Second)
		wait:
			for {
				select {
				case m := <-mergeDone:
					if m == "ok:"+c.String() {
						res = "ok"
						break wait
					}
					if m == "failed:"+docs[d] {
						res = "err"
						break wait
					}
				case <-deadline:
					break wait
				}
			}
			rec.ret(id, "merge", d, pendingSum[d], res, 0, nil)
			if res == "ok" {
				pendingSum[d] = 0
			}
		}
	}
	// a concurrent transaction shared by two goroutines
	shared := func() {
		defer wg.Done()
		txn, err := a.DB.NewConcurrentTxn(ctx, false)
		must(err)
		tctx := db.InitContext(ctx, txn)
		var inner sync.WaitGroup
		type pend struct {
			id  int
			key string
			err error
		}
		results := make(chan pend, 8)
		for s := 0; s < 2; s++ {
			inner.Add(1)
			go func(s int) {
				defer inner.Done()
				for j := 0; j < 2; j++ {
					key := fmt.Sprintf("shared-%d-%d", s, j)
					id := rec.inv("create", key, 0)
					col, err := a.DB.GetCollectionByName(tctx, "T")
					if err == nil {
						var doc *client.Document
						doc, err = client.NewDocFromMap(map[string]any{"name": key, "v": int64(j)}, col.Definition())
						if err == nil {
							err = col.Create(tctx, doc)
						}
					}
					results <- pend{id, key, err}
				}
			}(s)
		}
		inner.Wait()
		close(results)
		cerr := txn.Commit(ctx)
		for p := range results {
			e := p.err
			if e == nil {
				e = cerr
			}
			rec.ret(p.id, "create", p.key, 0, classify(e), 0, e)
		}
	}
	start := time.Now()
	for g := 0; g < *goroutines; g++ {
		wg.Add(1)
		go worker(g)
	}
	wg.Add(2)
	go merger()
	go shared()
	wg.Wait()
	// final reads: everything has returned, so these are ordered after every call
	for _, d := range []string{"d1", "d2"} {
		id := rec.inv("read", d, 0)
		data, err := a.Exec(ctx, fmt.Sprintf(`query { T(docID: %q) { c } }`, docs[d]))
		val := 0
		if err == nil && len(cluster.Rows(data, "T")) == 1 {
			n, _ := cluster.Rows(data, "T")[0]["c"].(json.Number)
			v, _ := n.Int64()
			val = int(v)
		}
		rec.ret(id, "read", d, 0, classify(err), val, err)
	}
	created := map[string]bool{}
	for _, e := range rec.evs {
		if e.Ev == "ret" && e.Op == "create" {
			created[e.D] = e.Res == "ok"
		}
	}
	for key := range created {
		id := rec.inv("exists", key, 0)
		data, err := a.Exec(ctx, fmt.Sprintf(`query { T(filter: {name: {_eq: %q}}) { name } }`, key))
		rec.ret(id, "exists", key, 0, classify(err), len(cluster.Rows(data, "T")), err)
	}
	sort.Slice(rec.evs, func(i, j int) bool { return rec.evs[i].Seq < rec.evs[j].Seq })
	f, err := os.Create(*out)
	must(err)
	byRes := map[string]int{}
	for _, e := range rec.evs {
		bts, _ := json.Marshal(e)
		f.Write(bts)
		f.Write([]byte("\n"))
		if e.Ev == "ret" {
			byRes[e.Op+":"+e.Res]++
		}
	}
	f.Close()
	js, _ := json.Marshal(map[string]any{"events": len(rec.evs), "calls": len(rec.evs) / 2, "by_result": byRes, "panics": panics.Load(), "wall_s": time.Since(start).Seconds()})
	if *stats != "" {
		os.WriteFile(*stats, js, 0o644)
	}
	fmt.Println(string(js))
	a.Close()
	b.Close()
}

func must(err error) {
	if err != nil {
		fmt.Fprintln(os.Stderr, "concrun:", err)
		os.Exit(2)
	}
}
