// Command concrun drives one real node from several goroutines (requests, collection operations, index changes, incoming
// merges through the event bus, a shared concurrent transaction) and records the history of invocations and returns for
// linearizability checking against spec/trace/Trace_Concurrent.tla (C16). It is built with -race.
package main

import (
	"context"
	"encoding/json"
	"errors"
	"flag"
	"fmt"
	"math/rand"
	"os"
	"sort"
	"strings"
	"sync"
	"sync/atomic"
	"time"

	"github.com/ipfs/go-cid"
	"github.com/sourcenetwork/corekv"

	"github.com/sourcenetwork/defradb/client"
	"github.com/sourcenetwork/defradb/event"
	"github.com/sourcenetwork/defradb/internal/db"
	"github.com/sourcenetwork/defradb/verif/cluster"
)

type ev struct {
	Seq int64  `json:"-"`
	Ev  string `json:"ev"`
	ID  int    `json:"id"`
	Op  string `json:"op"`
	D   string `json:"d"`
	K   int    `json:"k"`
	Res string `json:"res"`
	Val int    `json:"val"`
	Err string `json:"err,omitempty"`
}

var (
	seq    atomic.Int64
	nextID atomic.Int64
)

type recorder struct {
	mu  sync.Mutex
	evs []ev
}

func (r *recorder) inv(op, d string, k int) int {
	id := int(nextID.Add(1))
	e := ev{Seq: seq.Add(1), Ev: "inv", ID: id, Op: op, D: d, K: k}
	r.mu.Lock()
	r.evs = append(r.evs, e)
	r.mu.Unlock()
	return id
}

// mark records a point passed by a goroutine of the real code (no call id)
func (r *recorder) mark(kind, d string) {
	e := ev{Seq: seq.Add(1), Ev: kind, D: d}
	r.mu.Lock()
	r.evs = append(r.evs, e)
	r.mu.Unlock()
}

func (r *recorder) ret(id int, op, d string, k int, res string, val int, err error) {
	e := ev{Ev: "ret", ID: id, Op: op, D: d, K: k, Res: res, Val: val}
	if err != nil {
		e.Err = err.Error()
		if len(e.Err) > 200 {
			e.Err = e.Err[:200]
		}
	}
	e.Seq = seq.Add(1)
	r.mu.Lock()
	r.evs = append(r.evs, e)
	r.mu.Unlock()
}

func classify(err error) string {
	if err == nil {
		return "ok"
	}
	if errors.Is(err, corekv.ErrTxnConflict) || strings.Contains(err.Error(), "onflict") {
		return "conflict"
	}
	if errors.Is(err, cluster.ErrPanic) {
		return "panic"
	}
	if errors.Is(err, cluster.ErrHang) {
		return "hang"
	}
	return "err"
}

const sdl = "type T {\n name: String\n c: Int @crdt(type: pncounter)\n v: Int\n}\ntype R {\n name: String\n v: Int\n}"

func main() {
	out := flag.String("out", "", "history ndjson")
	stats := flag.String("stats", "", "stats json")
	seed := flag.Int64("seed", 1, "seed")
	goroutines := flag.Int("g", 6, "goroutines")
	ops := flag.Int("ops", 8, "operations per goroutine")
	indexChurn := flag.Bool("indexchurn", true, "include concurrent index create/drop")
	flag.Parse()
	ctx := context.Background()
	a, err := cluster.NewNode(ctx, "A", cluster.Options{})
	must(err)
	b, err := cluster.NewNode(ctx, "B", cluster.Options{})
	must(err)
	cols, err := a.DB.AddSchema(ctx, sdl)
	must(err)
	_, err = b.DB.AddSchema(ctx, sdl)
	must(err)
	colID := ""
	for _, c := range cols {
		if c.Name == "T" {
			colID = c.CollectionID
		}
	}
	docs := map[string]string{}
	// sources of the merge burst: each holds its own branch of d3
	const burstN = 6
	var srcs []*cluster.Node
	for i := 0; i < burstN; i++ {
		sn, err := cluster.NewNode(ctx, fmt.Sprintf("S%d", i), cluster.Options{})
		must(err)
		_, err = sn.DB.AddSchema(ctx, sdl)
		must(err)
		srcs = append(srcs, sn)
	}
	for _, d := range []string{"d1", "d2", "d3"} {
		for _, n := range append([]*cluster.Node{a, b}, srcs...) {
			data, err := n.Exec(ctx, fmt.Sprintf(`mutation { create_T(input: {name: %q, c: 0}) { _docID } }`, d))
			must(err)
			docs[d] = cluster.Rows(data, "create_T")[0]["_docID"].(string)
		}
	}
	rec := &recorder{}
	// merge completions / failures of node A
	mergeDone := make(chan string, 1024)
	burstDone := make(chan string, 1024)
	sub, err := a.DB.Events().Subscribe(event.MergeCompleteName)
	must(err)
	go func() {
		for m := range sub.Message() {
			if mc, ok := m.Data.(event.MergeComplete); ok {
				if mc.Merge.DocID == docs["d3"] {
					burstDone <- "ok:" + mc.Merge.Cid.String()
				} else {
					mergeDone <- "ok:" + mc.Merge.Cid.String()
				}
			}
		}
	}()
	nameOf := func(docID string) string {
		for n, id := range docs {
			if id == docID {
				return n
			}
		}
		return docID
	}
	db.VerifGate = func(point string, d *db.DB, key string) {
		if d != a.DB {
			return
		}
		switch point {
		case "merge.begin":
			rec.mark("mb", nameOf(key))
		case "merge.end":
			rec.mark("me", nameOf(key))
		case "merge.failed":
			if nameOf(key) == "d3" {
				burstDone <- "failed"
			} else {
				mergeDone <- "failed:" + key
			}
		}
	}
	var wg sync.WaitGroup
	panics := atomic.Int64{}
	worker := func(g int) {
		defer wg.Done()
		defer func() {
			if r := recover(); r != nil {
				panics.Add(1)
				fmt.Fprintln(os.Stderr, "PANIC in worker:", r)
			}
		}()
		rng := rand.New(rand.NewSource(*seed*1000 + int64(g)))
		for i := 0; i < *ops; i++ {
			d := []string{"d1", "d2"}[rng.Intn(2)]
			switch x := rng.Intn(10); {
			case x < 4: // increment through a request
				k := 1 + rng.Intn(3)
				if rng.Intn(4) == 0 {
					k = -k
				}
				id := rec.inv("inc", d, k)
				_, err := a.Exec(ctx, fmt.Sprintf(`mutation { update_T(docID: %q, input: {c: %d}) { _docID } }`, docs[d], k))
				rec.ret(id, "inc", d, k, classify(err), 0, err)
			case x < 6: // read
				id := rec.inv("read", d, 0)
				data, err := a.Exec(ctx, fmt.Sprintf(`query { T(docID: %q) { c } }`, docs[d]))
				val := 0
				if err == nil && len(cluster.Rows(data, "T")) == 1 {
					if n, ok := cluster.Rows(data, "T")[0]["c"].(json.Number); ok {
						v, _ := n.Int64()
						val = int(v)
					}
				} else if err == nil {
					err = fmt.Errorf("document not returned")
				}
				rec.ret(id, "read", d, 0, classify(err), val, err)
			case x < 8: // create through the collection API
				key := fmt.Sprintf("g%d-%d", g, i)
				id := rec.inv("create", key, 0)
				col, err := a.DB.GetCollectionByName(ctx, "T")
				if err == nil {
					var doc *client.Document
					doc, err = client.NewDocFromMap(map[string]any{"name": key, "v": int64(i)}, col.Definition())
					if err == nil {
						err = col.Create(ctx, doc)
					}
				}
				rec.ret(id, "create", key, 0, classify(err), 0, err)
			case x < 9: // existence of a key some goroutine may be creating
				key := fmt.Sprintf("g%d-%d", rng.Intn(*goroutines), rng.Intn(*ops))
				id := rec.inv("exists", key, 0)
				data, err := a.Exec(ctx, fmt.Sprintf(`query { T(filter: {name: {_eq: %q}}) { name } }`, key))
				rec.ret(id, "exists", key, 0, classify(err), len(cluster.Rows(data, "T")), err)
			default: // index churn
				if !*indexChurn {
					continue
				}
				id := rec.inv("index", "v", 0)
				col, err := a.DB.GetCollectionByName(ctx, "T")
				if err == nil {
					name := fmt.Sprintf("idx_g%d", g)
					_, err = col.CreateIndex(ctx, client.IndexCreateRequest{Name: name, Fields: []client.IndexedFieldDescription{{Name: "v"}}})
					if err == nil {
						err = col.DropIndex(ctx, name)
					}
				}
				rec.ret(id, "index", "v", 0, classify(err), 0, err)
			}
		}
	}
	// incoming merges: B increments, its commits reach A through the event bus while A is busy
	merger := func() {
		defer wg.Done()
		rng := rand.New(rand.NewSource(*seed*1000 + 999))
		pendingSum := map[string]int{}
		for i := 0; i < *ops; i++ {
			d := []string{"d1", "d2"}[rng.Intn(2)]
			k := 1 + rng.Intn(3)
			if _, err := b.Exec(ctx, fmt.Sprintf(`mutation { update_T(docID: %q, input: {c: %d}) { _docID } }`, docs[d], k)); err != nil {
				fmt.Fprintln(os.Stderr, "B update failed:", err)
				os.Exit(2)
			}
			pendingSum[d] += k
			hd, err := b.Exec(ctx, fmt.Sprintf(`query { latestCommits(docID: %q) { cid } }`, docs[d]))
			must(err)
			c, _ := cid.Decode(cluster.Rows(hd, "latestCommits")[0]["cid"].(string))
			_, err = cluster.CopyClosure(ctx, b, a, c)
			must(err)
			// the merge brings every increment of B that A has not merged yet
			id := rec.inv("merge", d, pendingSum[d])
			a.DB.Events().Publish(event.NewMessage(event.MergeName, event.Merge{DocID: docs[d], Cid: c, CollectionID: colID}))
			res := "hang"
			deadline := time.After(20 * time.Second)
		wait:
			for {
				select {
				case m := <-mergeDone:
					if m == "ok:"+c.String() {
						res = "ok"
						break wait
					}
					if m == "failed:"+docs[d] {
						res = "err"
						break wait
					}
				case <-deadline:
					break wait
				}
			}
			rec.ret(id, "merge", d, pendingSum[d], res, 0, nil)
			if res == "ok" {
				pendingSum[d] = 0
			}
		}
	}
	// a burst of incoming merges for one document nobody writes locally: independent branches, published at once.
	// The merge queue serialises them, so none can conflict with another: all complete, each adds its increment once.
	burst := func() {
		defer wg.Done()
		type bm struct {
			id int
			c  string
			k  int
		}
		var ms []bm
		var evs []event.Merge
		for i, sn := range srcs {
			k := i + 1
			if _, err := sn.Exec(ctx, fmt.Sprintf(`mutation { update_T(docID: %q, input: {c: %d}) { _docID } }`, docs["d3"], k)); err != nil {
				must(err)
			}
			hd, err := sn.Exec(ctx, fmt.Sprintf(`query { latestCommits(docID: %q) { cid } }`, docs["d3"]))
			must(err)
			c, _ := cid.Decode(cluster.Rows(hd, "latestCommits")[0]["cid"].(string))
			_, err = cluster.CopyClosure(ctx, sn, a, c)
			must(err)
			ms = append(ms, bm{c: c.String(), k: k})
			evs = append(evs, event.Merge{DocID: docs["d3"], Cid: c, CollectionID: colID})
		}
		time.Sleep(time.Duration(5+*seed%20) * time.Millisecond) // land in the middle of the other goroutines' work
		for i := range ms {
			ms[i].id = rec.inv("merge", "d3", ms[i].k)
		}
		for _, e := range evs {
			a.DB.Events().Publish(event.NewMessage(event.MergeName, e))
		}
		okc := map[string]bool{}
		got := 0
		deadline := time.After(30 * time.Second)
	wait:
		for got < len(ms) {
			select {
			case m := <-burstDone:
				got++
				if strings.HasPrefix(m, "ok:") {
					okc[m[3:]] = true
				}
			case <-deadline:
				break wait
			}
		}
		for _, m := range ms {
			res := "err"
			var err error
			if okc[m.c] {
				res = "ok"
			} else if got < len(ms) {
				res, err = "hang", fmt.Errorf("merge neither completed nor failed within 30s")
			} else {
				err = fmt.Errorf("incoming merge dropped after the retry budget although no local call writes this document")
			}
			rec.ret(m.id, "merge", "d3", m.k, res, 0, err)
		}
	}
	// Race exercise, not part of the recorded history: many goroutines write a separate collection through one shared
	// concurrent transaction. Judged by the race detector, by "no panic" and by a count after the commit.
	heavyLost := ""
	heavy := func() {
		defer wg.Done()
		const workers, per = 8, 20
		txn, err := a.DB.NewConcurrentTxn(ctx, false)
		must(err)
		tctx := db.InitContext(ctx, txn)
		col, err := a.DB.GetCollectionByName(tctx, "R")
		must(err)
		var inner sync.WaitGroup
		var failed atomic.Int64
		for w := 0; w < workers; w++ {
			inner.Add(1)
			go func(w int) {
				defer inner.Done()
				defer func() {
					if r := recover(); r != nil {
						panics.Add(1)
						fmt.Fprintln(os.Stderr, "PANIC in worker:", r)
					}
				}()
				for j := 0; j < per; j++ {
					doc, err := client.NewDocFromMap(map[string]any{"name": fmt.Sprintf("r-%d-%d", w, j), "v": int64(j)}, col.Definition())
					if err == nil {
						err = col.Create(tctx, doc)
					}
					if err != nil {
						failed.Add(1)
					}
				}
			}(w)
		}
		inner.Wait()
		cerr := txn.Commit(ctx)
		data, err := a.Exec(ctx, `query { _count(R: {}) }`)
		must(err)
		n, _ := data["_count"].(json.Number)
		got, _ := n.Int64()
		want := int64(workers*per) - failed.Load()
		if cerr != nil {
			want = 0
		}
		if got != want {
			heavyLost = fmt.Sprintf("%d documents were created without error through a shared concurrent transaction (commit: %v) but %d exist", want, cerr, got)
		}
	}
	// a concurrent transaction shared by several goroutines
	shared := func() {
		defer wg.Done()
		txn, err := a.DB.NewConcurrentTxn(ctx, false)
		must(err)
		tctx := db.InitContext(ctx, txn)
		var inner sync.WaitGroup
		type pend struct {
			id  int
			key string
			err error
		}
		results := make(chan pend, 64)
		for s := 0; s < 6; s++ {
			inner.Add(1)
			go func(s int) {
				defer inner.Done()
				for j := 0; j < 3; j++ {
					key := fmt.Sprintf("shared-%d-%d", s, j)
					id := rec.inv("create", key, 0)
					col, err := a.DB.GetCollectionByName(tctx, "T")
					if err == nil {
						var doc *client.Document
						doc, err = client.NewDocFromMap(map[string]any{"name": key, "v": int64(j)}, col.Definition())
						if err == nil {
							err = col.Create(tctx, doc)
						}
					}
					results <- pend{id, key, err}
				}
			}(s)
		}
		inner.Wait()
		close(results)
		cerr := txn.Commit(ctx)
		for p := range results {
			e := p.err
			if e == nil {
				e = cerr
			}
			rec.ret(p.id, "create", p.key, 0, classify(e), 0, e)
		}
	}
	start := time.Now()
	for g := 0; g < *goroutines; g++ {
		wg.Add(1)
		go worker(g)
	}
	wg.Add(4)
	go merger()
	go shared()
	go burst()
	go heavy()
	wg.Wait()
	// final reads: everything has returned, so these are ordered after every call
	for _, d := range []string{"d1", "d2", "d3"} {
		id := rec.inv("read", d, 0)
		data, err := a.Exec(ctx, fmt.Sprintf(`query { T(docID: %q) { c } }`, docs[d]))
		val := 0
		if err == nil && len(cluster.Rows(data, "T")) == 1 {
			n, _ := cluster.Rows(data, "T")[0]["c"].(json.Number)
			v, _ := n.Int64()
			val = int(v)
		}
		rec.ret(id, "read", d, 0, classify(err), val, err)
	}
	created := map[string]bool{}
	for _, e := range rec.evs {
		if e.Ev == "ret" && e.Op == "create" {
			created[e.D] = e.Res == "ok"
		}
	}
	for key := range created {
		id := rec.inv("exists", key, 0)
		data, err := a.Exec(ctx, fmt.Sprintf(`query { T(filter: {name: {_eq: %q}}) { name } }`, key))
		rec.ret(id, "exists", key, 0, classify(err), len(cluster.Rows(data, "T")), err)
	}
	sort.Slice(rec.evs, func(i, j int) bool { return rec.evs[i].Seq < rec.evs[j].Seq })
	f, err := os.Create(*out)
	must(err)
	byRes := map[string]int{}
	for _, e := range rec.evs {
		bts, _ := json.Marshal(e)
		f.Write(bts)
		f.Write([]byte("\n"))
		if e.Ev == "ret" {
			byRes[e.Op+":"+e.Res]++
		}
	}
	f.Close()
	js, _ := json.Marshal(map[string]any{"events": len(rec.evs), "calls": len(rec.evs) / 2, "by_result": byRes, "panics": panics.Load(), "shared_txn_lost": heavyLost, "wall_s": time.Since(start).Seconds()})
	if *stats != "" {
		os.WriteFile(*stats, js, 0o644)
	}
	fmt.Println(string(js))
	a.Close()
	b.Close()
	for _, sn := range srcs {
		sn.Close()
	}
}

func must(err error) {
	if err != nil {
		fmt.Fprintln(os.Stderr, "concrun:", err)
		os.Exit(2)
	}
}
