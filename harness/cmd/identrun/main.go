// Command identrun executes the routes of spec/Identity.tla on fresh real nodes (C13) and reports the ids obtained.
package main

import (
	"bufio"
	"context"
	"encoding/json"
	"flag"
	"fmt"
	"os"
	"sort"
	"strings"
	"time"

	"github.com/sourcenetwork/defradb/client"
	"github.com/sourcenetwork/defradb/verif/cluster"
)

type docRoute struct {
	Content map[string]string `json:"content"`
	Order   []string          `json:"order"`
	Via     string            `json:"via"`
	Nulls   string            `json:"nulls"`
	Key     [][]string        `json:"key"`
}

type schemaRoute struct {
	Graph string     `json:"graph"`
	Calls [][]string `json:"calls"`
}

const docSDL = "type D {\n s: String\n i: Int\n f: Float\n b: Boolean\n t: DateTime\n}"

// SDL of each type of each graph.
var graphs = map[string]map[string]string{
	"isolated": {"A": "type A {\n name: String\n}", "B": "type B {\n title: String\n n: Int\n}"},
	"onemany":  {"Author": "type Author {\n name: String\n books: [Book]\n}", "Book": "type Book {\n title: String\n author: Author\n}"},
	"mutual": {
		"A": "type A {\n name: String\n b: B @primary @relation(name: \"a_b\")\n b2: B @relation(name: \"b_a\")\n}",
		"B": "type B {\n name: String\n a: A @relation(name: \"a_b\")\n a2: A @primary @relation(name: \"b_a\")\n}"},
	"selfref": {"User": "type User {\n name: String\n boss: User @primary @relation(name: \"boss_minion\")\n minion: User @relation(name: \"boss_minion\")\n}"},
	"triangle": {
		"A": "type A {\n name: String\n b: B @primary @relation(name: \"a_b\")\n c: C @relation(name: \"c_a\")\n}",
		"B": "type B {\n name: String\n c: C @primary @relation(name: \"b_c\")\n a: A @relation(name: \"a_b\")\n}",
		"C": "type C {\n name: String\n a: A @primary @relation(name: \"c_a\")\n b: B @relation(name: \"b_c\")\n}"},
	"cycletail": {
		"A": "type A {\n name: String\n b: B @primary @relation(name: \"a_b\")\n b2: B @relation(name: \"b_a\")\n c: C @primary @relation(name: \"a_c\")\n}",
		"B": "type B {\n name: String\n a: A @relation(name: \"a_b\")\n a2: A @primary @relation(name: \"b_a\")\n}",
		"C": "type C {\n name: String\n a: A @relation(name: \"a_c\")\n}"},
	"mixedself": {
		"Book":  "type Book {\n title: String\n}",
		"User":  "type User {\n name: String\n boss: User @primary @relation(name: \"boss_minion\")\n minion: User @relation(name: \"boss_minion\")\n}",
		"Shelf": "type Shelf {\n label: String\n n: Int\n}"},
	"four": {
		"A": "type A {\n name: String\n b: B @primary @relation(name: \"a_b\")\n b2: B @relation(name: \"b_a\")\n cs: [C]\n}",
		"B": "type B {\n name: String\n a: A @relation(name: \"a_b\")\n a2: A @primary @relation(name: \"b_a\")\n}",
		"C": "type C {\n name: String\n a: A\n ds: [D]\n}",
		"D": "type D {\n name: String\n c: C\n}"},
}

func typed(f, v string) any {
	switch f {
	case "s":
		return v
	case "i":
		var i int64
		fmt.Sscan(v, &i)
		return i
	case "f":
		var x float64
		fmt.Sscan(v, &x)
		return x
	case "b":
		return v == "true"
	case "t":
		return v
	}
	return nil
}

func gqlLit(f, v string) string {
	if f == "s" || f == "t" {
		return fmt.Sprintf("%q", v)
	}
	return v
}

func readLines(path string, fn func([]byte)) {
	f, err := os.Open(path)
	if err != nil {
		fmt.Fprintln(os.Stderr, err)
		os.Exit(2)
	}
	defer f.Close()
	sc := bufio.NewScanner(f)
	sc.Buffer(make([]byte, 1<<20), 1<<24)
	for sc.Scan() {
		if len(strings.TrimSpace(sc.Text())) > 0 {
			fn([]byte(sc.Text()))
		}
	}
}

type out struct {
	DocRuns      int                 `json:"doc_runs"`
	SchemaRuns   int                 `json:"schema_runs"`
	NotInstalled int                 `json:"schema_routes_refused"`
	Problems     []map[string]string `json:"problems"`
}

func main() {
	in := flag.String("routes", "", "prefix of route files")
	outp := flag.String("out", "", "result json")
	reps := flag.Int("reps", 2, "repetitions per route (map iteration nondeterminism)")
	flag.Parse()
	ctx := context.Background()
	res := &out{}
	problem := func(kind, msg string) {
		if len(res.Problems) < 100 {
			res.Problems = append(res.Problems, map[string]string{"kind": kind, "msg": msg})
		}
	}
	// ---------- documents
	byKey := map[string]map[string]string{} // key -> docID -> a route that produced it
	byID := map[string]string{}             // docID -> key
	readLines(*in+".docs", func(b []byte) {
		var r docRoute
		if err := json.Unmarshal(b, &r); err != nil {
			fmt.Fprintln(os.Stderr, "bad route", err)
			os.Exit(2)
		}
		var kp []string
		for _, p := range r.Key {
			kp = append(kp, p[0]+"="+p[1])
		}
		sort.Strings(kp)
		key := strings.Join(kp, "&")
		for rep := 0; rep < *reps; rep++ {
			n, err := cluster.NewNode(ctx, "id", cluster.Options{})
			if err != nil {
				fmt.Fprintln(os.Stderr, err)
				os.Exit(2)
			}
			if _, err := n.DB.AddSchema(ctx, docSDL); err != nil {
				fmt.Fprintln(os.Stderr, err)
				os.Exit(2)
			}
			col, _ := n.DB.GetCollectionByName(ctx, "D")
			var docID string
			desc := fmt.Sprintf("via=%s order=%v nulls=%s content=%v", r.Via, r.Order, r.Nulls, r.Content)
			switch r.Via {
			case "json":
				var parts []string
				for _, f := range r.Order {
					v := r.Content[f]
					if v == "null" {
						if r.Nulls == "explicit" {
							parts = append(parts, fmt.Sprintf("%q: null", f))
						}
						continue
					}
					jb, _ := json.Marshal(typed(f, v))
					parts = append(parts, fmt.Sprintf("%q: %s", f, jb))
				}
				doc, err := client.NewDocFromJSON([]byte("{"+strings.Join(parts, ", ")+"}"), col.Definition())
				if err == nil {
					err = col.Create(ctx, doc)
				}
				if err != nil {
					problem("doc-error", desc+": "+err.Error())
					n.Close()
					continue
				}
				docID = doc.ID().String()
			case "map", "maptime":
				m := map[string]any{}
				for _, f := range r.Order {
					v := r.Content[f]
					if v == "null" {
						if r.Nulls == "explicit" {
							m[f] = nil
						}
						continue
					}
					m[f] = typed(f, v)
					if f == "t" && r.Via == "maptime" {
						tv, perr := time.Parse(time.RFC3339, v)
						if perr != nil {
							fmt.Fprintln(os.Stderr, "bad time in route table:", perr)
							os.Exit(2)
						}
						m[f] = tv
					}
				}
				doc, err := client.NewDocFromMap(m, col.Definition())
				if err == nil {
					err = col.Create(ctx, doc)
				}
				if err != nil {
					problem("doc-error", desc+": "+err.Error())
					n.Close()
					continue
				}
				docID = doc.ID().String()
			case "gql":
				var parts []string
				for _, f := range r.Order {
					v := r.Content[f]
					if v == "null" {
						if r.Nulls == "explicit" {
							parts = append(parts, f+": null")
						}
						continue
					}
					parts = append(parts, f+": "+gqlLit(f, v))
				}
				d, err := n.Exec(ctx, "mutation { create_D(input: {"+strings.Join(parts, ", ")+"}) { _docID } }")
				if err != nil {
					problem("doc-error", desc+": "+err.Error())
					n.Close()
					continue
				}
				docID = cluster.Rows(d, "create_D")[0]["_docID"].(string)
			}
			// what the database reports for the stored document
			d, err := n.Exec(ctx, "query { D { _docID } }")
			if err == nil && len(cluster.Rows(d, "D")) == 1 && cluster.Rows(d, "D")[0]["_docID"].(string) != docID {
				problem("docid-stored", desc+": created as "+docID+" but stored as "+cluster.Rows(d, "D")[0]["_docID"].(string))
			}
			n.Close()
			res.DocRuns++
			if byKey[key] == nil {
				byKey[key] = map[string]string{}
			}
			if _, ok := byKey[key][docID]; !ok {
				byKey[key][docID] = desc
			}
			if k2, ok := byID[docID]; ok && k2 != key {
				problem("docid-collision", fmt.Sprintf("different contents {%s} and {%s} got the same docID %s", k2, key, docID))
			}
			byID[docID] = key
		}
	})
	for key, ids := range byKey {
		if len(ids) > 1 {
			var ex []string
			for id, d := range ids {
				ex = append(ex, id+" <- "+d)
			}
			sort.Strings(ex)
			problem("docid-depends-on-route", fmt.Sprintf("content {%s} got %d different docIDs depending on the construction route: %s", key, len(ids), strings.Join(ex[:2], " | ")))
		}
	}
	// ---------- schemas
	type ids map[string]string
	ref := map[string]ids{}
	refRoute := map[string]string{}
	readLines(*in+".schemas", func(b []byte) {
		var r schemaRoute
		if err := json.Unmarshal(b, &r); err != nil {
			fmt.Fprintln(os.Stderr, "bad route", err)
			os.Exit(2)
		}
		for rep := 0; rep < *reps; rep++ {
			n, err := cluster.NewNode(ctx, "sc", cluster.Options{})
			if err != nil {
				fmt.Fprintln(os.Stderr, err)
				os.Exit(2)
			}
			okAll := true
			for _, call := range r.Calls {
				var sdl []string
				for _, t := range call {
					sdl = append(sdl, graphs[r.Graph][t])
				}
				if _, err := n.DB.AddSchema(ctx, strings.Join(sdl, "\n")); err != nil {
					okAll = false
					break
				}
			}
			if !okAll {
				res.NotInstalled++
				n.Close()
				break
			}
			res.SchemaRuns++
			cols, err := n.DB.GetCollections(ctx, client.CollectionFetchOptions{})
			if err != nil {
				problem("schema-error", err.Error())
				n.Close()
				continue
			}
			got := ids{}
			for _, c := range cols {
				v := c.Version()
				var fs []string
				for _, f := range c.Definition().GetFields() {
					fs = append(fs, fmt.Sprintf("%s:%v", f.Name, f.Kind))
				}
				sort.Strings(fs)
				got[c.Name()] = "version=" + v.VersionID + " collection=" + v.CollectionID + " fields=" + strings.Join(fs, ",")
			}
			n.Close()
			routeDesc := fmt.Sprint(r.Calls)
			if ref[r.Graph] == nil {
				ref[r.Graph] = got
				refRoute[r.Graph] = routeDesc
				continue
			}
			for name, v := range got {
				if ref[r.Graph][name] != v {
					problem("schema-id-depends-on-route", fmt.Sprintf("graph %s type %s: route %s gives %s, route %s gives %s", r.Graph, name, routeDesc, v, refRoute[r.Graph], ref[r.Graph][name]))
				}
			}
		}
	})
	for g := range graphs {
		if ref[g] == nil {
			problem("schema-not-installable", "no route installed graph "+g)
		}
	}
	js, _ := json.MarshalIndent(res, "", " ")
	os.WriteFile(*outp, js, 0o644)
	fmt.Printf("doc_runs=%d schema_runs=%d refused=%d problems=%d\n", res.DocRuns, res.SchemaRuns, res.NotInstalled, len(res.Problems))
}
