// Command faultrun records storage-fault enumeration runs (C05) as ndjson for Trace_Atomicity.
package main

import (
	"bufio"
	"context"
	"encoding/json"
	"flag"
	"fmt"
	"os"
	"strings"
	"time"

	"github.com/sourcenetwork/defradb/verif/faultrun"
)

func main() {
	out := flag.String("out", "", "trace ndjson")
	stats := flag.String("stats", "", "stats json")
	variant := flag.String("variant", "plain", "plain|indexed|branchable")
	priors := flag.String("priors", "docs", "comma separated prior states")
	ops := flag.String("ops", "", "comma separated operations (empty: all)")
	stride := flag.Int("stride", 1, "every stride-th k")
	offset := flag.Int("offset", 0, "first k = 1 + offset")
	flag.Parse()
	ctx := context.Background()
	tmp, _ := os.MkdirTemp("", "faultrun")
	defer os.RemoveAll(tmp)
	f, err := os.Create(*out)
	if err != nil {
		fmt.Fprintln(os.Stderr, err)
		os.Exit(2)
	}
	w := bufio.NewWriter(f)
	start := time.Now()
	runs, faults := 0, 0
	byop := map[string]int{}
	want := map[string]bool{}
	for _, o := range strings.Split(*ops, ",") {
		if o != "" {
			want[o] = true
		}
	}
	for _, prior := range strings.Split(*priors, ",") {
		for _, op := range faultrun.Operations() {
			if len(want) > 0 && !want[op.Name] {
				continue
			}
			if op.Needs == "docs" && prior == "empty" {
				continue
			}
			err := faultrun.Enumerate(ctx, *variant, prior, op, *stride, *offset, tmp, func(l faultrun.Line) {
				b, _ := json.Marshal(l)
				w.Write(b)
				w.WriteByte('\n')
				runs++
				if l.K > 0 {
					faults++
				}
				byop[l.Op] = l.N
			})
			if err != nil {
				fmt.Fprintln(os.Stderr, "faultrun:", err)
				os.Exit(2)
			}
		}
	}
	w.Flush()
	f.Close()
	js, _ := json.Marshal(map[string]any{"runs": runs, "fault_runs": faults, "storage_ops_per_operation": byop, "wall_s": time.Since(start).Seconds()})
	if *stats != "" {
		os.WriteFile(*stats, js, 0o644)
	}
	fmt.Println(string(js))
}
