// Command relrun replays behaviours of spec/Relations.tla under several index configurations (C09).
package main

import (
	"bufio"
	"context"
	"encoding/json"
	"flag"
	"fmt"
	"os"
	"sort"
	"strings"
	"time"

	"github.com/sourcenetwork/defradb/verif/cluster"
)

type obs struct {
	Parents  []string        `json:"parents"`
	Children []string        `json:"children"`
	Kids     json.RawMessage `json:"kids"`
	ParentOf json.RawMessage `json:"parentOf"`
	Rating   json.RawMessage `json:"rating"`
	Good     []string        `json:"parentsWithGoodKid"`
	KidCount json.RawMessage `json:"kidCount"`
	KidSum   json.RawMessage `json:"kidSum"`
	Orphans  []string        `json:"orphans"`
}
type step struct {
	Op  string `json:"op"`
	P   string `json:"p"`
	C   string `json:"c"`
	R   int    `json:"r"`
	Res string `json:"res"`
	Obs obs    `json:"obs"`
}

type variant struct {
	Name string
	SDL  string
	Rel  string // name of the relation field on the parent side ("" = the default of the mode)
}

func variants(oneToOne bool) []variant {
	if oneToOne {
		base := "type Author {\n name: String%s\n book: Book\n}\ntype Book {\n name: String\n rating: Int%s\n author: Author @primary%s\n}"
		return []variant{
			{"none", fmt.Sprintf(base, "", "", ""), ""},
			{"fk-unique", fmt.Sprintf(base, "", "", " @index(unique: true)"), ""},
			{"rating", fmt.Sprintf(base, "", " @index", ""), ""},
			{"all", fmt.Sprintf(base, " @index", " @index", " @index(unique: true)"), ""},
			// both halves of the relation carry the same field name
			{"same-field-name", "type Author {\n name: String\n author: Book\n}\ntype Book {\n name: String\n rating: Int\n author: Author @primary\n}", "author"},
		}
	}
	base := "type Author {\n name: String%s\n books: [Book]\n}\ntype Book {\n name: String\n rating: Int%s\n author: Author%s\n}"
	return []variant{
		{"none", fmt.Sprintf(base, "", "", ""), ""},
		{"fk", fmt.Sprintf(base, "", "", " @index"), ""},
		{"rating", fmt.Sprintf(base, "", " @index", ""), ""},
		{"name", fmt.Sprintf(base, " @index", "", ""), ""},
		{"all", fmt.Sprintf(base, " @index", " @index", " @index"), ""},
	}
}

func strMap(raw json.RawMessage) map[string]string {
	m := map[string]string{}
	json.Unmarshal(raw, &m)
	return m
}
func intMap(raw json.RawMessage) map[string]int {
	m := map[string]int{}
	json.Unmarshal(raw, &m)
	return m
}
func setMap(raw json.RawMessage) map[string][]string {
	m := map[string][]string{}
	json.Unmarshal(raw, &m)
	return m
}

type violation struct {
	Kind    string `json:"kind"`
	Variant string `json:"variant"`
	Step    int    `json:"step"`
	Msg     string `json:"msg"`
	Data    []step `json:"behaviour_data,omitempty"`
}

func names(rows []map[string]any) []string {
	var out []string
	for _, r := range rows {
		out = append(out, fmt.Sprint(r["name"]))
	}
	sort.Strings(out)
	return out
}
func eq(a, b []string) bool {
	a = append([]string{}, a...)
	b = append([]string{}, b...)
	sort.Strings(a)
	sort.Strings(b)
	return strings.Join(a, ",") == strings.Join(b, ",")
}

func main() {
	beh := flag.String("beh", "", "behaviours")
	out := flag.String("out", "", "result")
	oneToOne := flag.Bool("onetoone", false, "one-to-one mode")
	budget := flag.Duration("budget", 0, "budget")
	flag.Parse()
	ctx := context.Background()
	data, err := os.ReadFile(*beh)
	if err != nil {
		fmt.Fprintln(os.Stderr, err)
		os.Exit(2)
	}
	var behaviours [][]step
	if t := strings.TrimSpace(string(data)); strings.HasPrefix(t, "{") {
		var o struct {
			Data []step `json:"behaviour_data"`
		}
		json.Unmarshal([]byte(t), &o)
		behaviours = append(behaviours, o.Data)
	} else {
		sc := bufio.NewScanner(strings.NewReader(string(data)))
		sc.Buffer(make([]byte, 1<<20), 1<<27)
		seen := map[string]bool{}
		for sc.Scan() {
			l := strings.TrimSpace(sc.Text())
			if l == "" || seen[l] {
				continue
			}
			seen[l] = true
			if l[0] == '"' {
				var inner string
				if err := json.Unmarshal([]byte(l), &inner); err != nil {
					inner = strings.ReplaceAll(l[1:len(l)-1], `""`, `"`)
				}
				l = inner
			}
			var b []step
			if err := json.Unmarshal([]byte(l), &b); err != nil {
				fmt.Fprintln(os.Stderr, "bad behaviour", err)
				os.Exit(2)
			}
			behaviours = append(behaviours, b)
		}
	}
	var viol []violation
	var herr []string
	nb, ns, nq := 0, 0, 0
	perKind := map[string]int{}
	start := time.Now()
	rel := "books"
	if *oneToOne {
		rel = "book"
	}
	for bi, b := range behaviours {
		if *budget > 0 && time.Since(start) > *budget {
			break
		}
		nb++
		vs := variants(*oneToOne)
		for _, v := range []variant{vs[0], vs[1+bi%(len(vs)-1)]} {
			rel := rel
			if v.Rel != "" {
				rel = v.Rel
			}
			n, err := cluster.NewNode(ctx, "rel", cluster.Options{})
			if err != nil {
				herr = append(herr, err.Error())
				continue
			}
			if _, err := n.DB.AddSchema(ctx, v.SDL); err != nil {
				herr = append(herr, "schema "+v.Name+": "+err.Error())
				n.Close()
				continue
			}
			ids := map[string]string{}
			bad := func(si int, kind, f string, a ...any) {
				key := kind + "|" + v.Name
				perKind[key]++
				if perKind[key] > 3 {
					return
				}
				viol = append(viol, violation{Kind: kind, Variant: v.Name, Step: si, Msg: fmt.Sprintf(f, a...), Data: b})
			}
			for si, st := range b {
				ns++
				var err error
				switch st.Op {
				case "createP":
					var d map[string]any
					d, err = n.Exec(ctx, fmt.Sprintf(`mutation { create_Author(input: {name: %q}) { _docID } }`, st.P))
					if err == nil {
						ids[st.P] = cluster.Rows(d, "create_Author")[0]["_docID"].(string)
					}
				case "createC":
					in := fmt.Sprintf(`name: %q, rating: %d`, st.C, st.R)
					if st.P != "none" {
						in += fmt.Sprintf(`, author: %q`, ids[st.P])
					}
					var d map[string]any
					d, err = n.Exec(ctx, "mutation { create_Book(input: {"+in+"}) { _docID } }")
					if err == nil {
						ids[st.C] = cluster.Rows(d, "create_Book")[0]["_docID"].(string)
					}
				case "link":
					target := "null"
					if st.P != "none" {
						target = fmt.Sprintf("%q", ids[st.P])
					}
					_, err = n.Exec(ctx, fmt.Sprintf(`mutation { update_Book(docID: %q, input: {author: %s}) { _docID } }`, ids[st.C], target))
				case "rate":
					_, err = n.Exec(ctx, fmt.Sprintf(`mutation { update_Book(docID: %q, input: {rating: %d}) { _docID } }`, ids[st.C], st.R))
				case "deleteC":
					_, err = n.Exec(ctx, fmt.Sprintf(`mutation { delete_Book(docID: %q) { _docID } }`, ids[st.C]))
				case "deleteP":
					_, err = n.Exec(ctx, fmt.Sprintf(`mutation { delete_Author(docID: %q) { _docID } }`, ids[st.P]))
				}
				if (err == nil) != (st.Res == "ok") {
					if st.Res == "refused" {
						bad(si, "one-to-one-two-holders", "%s of %s to %s succeeded although %s is already linked: the one-to-one link is now held by two documents", st.Op, st.C, st.P, st.P)
					} else {
						bad(si, "write-refused:"+st.Op, "%s (%s, %s) was refused: %v", st.Op, st.P, st.C, err)
					}
					break
				}
				o := st.Obs
				kids, parentOf, rating := setMap(o.Kids), strMap(o.ParentOf), intMap(o.Rating)
				kidCount, kidSum := intMap(o.KidCount), intMap(o.KidSum)
				q := func(kind, req string) (map[string]any, bool) {
					nq++
					d, err := n.Exec(ctx, "query { "+req+" }")
					if err != nil {
						bad(si, kind+":error", "%s -> %v", req, err)
						return nil, false
					}
					return d, true
				}
				// Q1 parent side
				if d, ok := q("parent-side", fmt.Sprintf(`Author { name %s { name } }`, rel)); ok {
					rows := cluster.Rows(d, "Author")
					if !eq(names(rows), o.Parents) {
						bad(si, "parent-side", "Author listing %v, expected %v", names(rows), o.Parents)
					}
					for _, row := range rows {
						var got []string
						switch x := row[rel].(type) {
						case []any:
							for _, k := range x {
								got = append(got, fmt.Sprint(k.(map[string]any)["name"]))
							}
						case map[string]any:
							got = append(got, fmt.Sprint(x["name"]))
						}
						p := fmt.Sprint(row["name"])
						if !eq(got, kids[p]) {
							bad(si, "parent-side", "%s.%s = %v from the parent side, but the children whose relation field points to %s are %v", p, rel, got, p, kids[p])
						}
					}
				}
				// Q2 child side
				if d, ok := q("child-side", `Book { name rating author { name } }`); ok {
					rows := cluster.Rows(d, "Book")
					if !eq(names(rows), o.Children) {
						bad(si, "child-side", "Book listing %v, expected %v", names(rows), o.Children)
					}
					for _, row := range rows {
						c := fmt.Sprint(row["name"])
						got := "none"
						if a, ok := row["author"].(map[string]any); ok && a != nil {
							got = fmt.Sprint(a["name"])
						}
						if got != parentOf[c] {
							bad(si, "child-side", "%s.author = %s, expected %s", c, got, parentOf[c])
						}
						if r, _ := row["rating"].(json.Number).Int64(); int(r) != rating[c] {
							bad(si, "child-side", "%s.rating = %d, expected %d", c, r, rating[c])
						}
					}
				}
				for _, p := range o.Parents {
					// Q3 filter through the relation from the child side
					if d, ok := q("filter-child-side", fmt.Sprintf(`Book(filter: {author: {name: {_eq: %q}}}) { name }`, p)); ok {
						if got := names(cluster.Rows(d, "Book")); !eq(got, kids[p]) {
							bad(si, "filter-child-side", "Book(filter author.name = %s) = %v, the children of %s are %v", p, got, p, kids[p])
						}
					}
					// Q6 filter on the foreign key
					if d, ok := q("filter-fk", fmt.Sprintf(`Book(filter: {author_id: {_eq: %q}}) { name }`, ids[p])); ok {
						if got := names(cluster.Rows(d, "Book")); !eq(got, kids[p]) {
							bad(si, "filter-fk", "Book(filter author_id = %s) = %v, expected %v", p, got, kids[p])
						}
					}
					// Q8 docID on the parent together with a filter through the relation
					if d, ok := q("docid-and-relation-filter", fmt.Sprintf(`Author(docID: %q, filter: {%s: {rating: {_ge: 2}}}) { name }`, ids[p], rel)); ok {
						want := []string{}
						for _, g := range o.Good {
							if g == p {
								want = []string{p}
							}
						}
						if got := names(cluster.Rows(d, "Author")); !eq(got, want) {
							bad(si, "docid-and-relation-filter", "Author(docID: %s, filter %s.rating >= 2) = %v, expected %v", p, rel, got, want)
						}
					}
				}
				// Q10 the parent's own filter combined with a filter through the relation
				for _, p := range o.Parents {
					if d, ok := q("parent-filter-and-relation-filter", fmt.Sprintf(`Author(filter: {name: {_eq: %q}, %s: {rating: {_ge: 2}}}) { name }`, p, rel)); ok {
						want := []string{}
						for _, g := range o.Good {
							if g == p {
								want = []string{p}
							}
						}
						if got := names(cluster.Rows(d, "Author")); !eq(got, want) {
							bad(si, "parent-filter-and-relation-filter", "Author(filter name = %s and %s.rating >= 2) = %v, expected %v", p, rel, got, want)
						}
					}
				}
				// Q11 children NOT of a given parent (orphans included: a missing parent is not that parent)
				if len(o.Parents) > 0 {
					p := o.Parents[0]
					if d, ok := q("filter-child-side-ne", fmt.Sprintf(`Book(filter: {author: {name: {_ne: %q}}}) { name }`, p)); ok {
						var want []string
						for _, c := range o.Children {
							if parentOf[c] != p {
								want = append(want, c)
							}
						}
						if got := names(cluster.Rows(d, "Book")); !eq(got, want) {
							bad(si, "filter-child-side-ne", "Book(filter author.name != %s) = %v, expected %v", p, got, want)
						}
					}
				}
				// Q4 filter through the relation from the parent side
				if d, ok := q("filter-parent-side", fmt.Sprintf(`Author(filter: {%s: {rating: {_ge: 2}}}) { name }`, rel)); ok {
					if got := names(cluster.Rows(d, "Author")); !eq(got, o.Good) {
						bad(si, "filter-parent-side", "Author(filter %s.rating >= 2) = %v, the parents with such a child are %v", rel, got, o.Good)
					}
				}
				// Q5 aggregates over the relation
				if !*oneToOne {
					if d, ok := q("aggregate", `Author { name _count(books: {}) _sum(books: {field: rating}) }`); ok {
						for _, row := range cluster.Rows(d, "Author") {
							p := fmt.Sprint(row["name"])
							c, _ := row["_count"].(json.Number).Int64()
							s, _ := row["_sum"].(json.Number).Int64()
							if int(c) != kidCount[p] || int(s) != kidSum[p] {
								bad(si, "aggregate", "%s: _count(books) = %d, _sum(books.rating) = %d, expected %d and %d", p, c, s, kidCount[p], kidSum[p])
							}
						}
					}
					if d, ok := q("aggregate-only", `Author { name _count(books: {filter: {rating: {_ge: 2}}}) }`); ok {
						for _, row := range cluster.Rows(d, "Author") {
							p := fmt.Sprint(row["name"])
							c, _ := row["_count"].(json.Number).Int64()
							want := 0
							for _, k := range kids[p] {
								if rating[k] >= 2 {
									want++
								}
							}
							if int(c) != want {
								bad(si, "aggregate-only", "%s: _count(books with rating >= 2) = %d, expected %d", p, c, want)
							}
						}
					}
				}
				// Q7 order through the relation
				if d, ok := q("order-through-relation", `Book(order: {author: {name: ASC}}) { name author { name } }`); ok {
					rows := cluster.Rows(d, "Book")
					var got, want []string
					for _, row := range rows {
						k := ""
						if a, ok := row["author"].(map[string]any); ok && a != nil {
							k = fmt.Sprint(a["name"])
						}
						got = append(got, k)
					}
					for _, c := range o.Children {
						k := parentOf[c]
						if k == "none" {
							k = ""
						}
						want = append(want, k)
					}
					sort.Strings(want)
					if strings.Join(got, ",") != strings.Join(want, ",") {
						bad(si, "order-through-relation", "Book ordered by author.name has key sequence %v, expected %v", got, want)
					}
				}
			}
			n.Close()
		}
		if len(viol) > 80 {
			break
		}
	}
	js, _ := json.MarshalIndent(map[string]any{"behaviours": nb, "steps": ns, "queries": nq, "violations": viol, "harness_errors": herr}, "", " ")
	os.WriteFile(*out, js, 0o644)
	fmt.Printf("behaviours=%d steps=%d queries=%d violations=%d errors=%d\n", nb, ns, nq, len(viol), len(herr))
}
