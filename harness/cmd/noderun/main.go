// Command noderun replays NodeOps behaviours (C14, C19).
package main

import (
	"bufio"
	"context"
	"encoding/json"
	"flag"
	"fmt"
	"os"
	"strings"
	"time"

	"github.com/sourcenetwork/defradb/verif/noderun"
)

func main() {
	beh := flag.String("beh", "", "behaviours")
	out := flag.String("out", "", "result")
	budget := flag.Duration("budget", 0, "budget")
	max := flag.Int("max", 0, "max behaviours")
	stride := flag.Int("stride", 1, "replay every k-th behaviour")
	offset := flag.Int("offset", 0, "first behaviour of the stride")
	flag.Parse()
	r := &noderun.Runner{Ctx: context.Background(), Res: &noderun.Result{ByOp: map[string]int{}}}
	data, err := os.ReadFile(*beh)
	if err != nil {
		fmt.Fprintln(os.Stderr, err)
		os.Exit(2)
	}
	start := time.Now()
	if t := strings.TrimSpace(string(data)); strings.HasPrefix(t, "{") {
		var o struct {
			Data []noderun.Step `json:"behaviour_data"`
		}
		if err := json.Unmarshal([]byte(t), &o); err != nil {
			fmt.Fprintln(os.Stderr, err)
			os.Exit(2)
		}
		r.Replay(o.Data)
	} else {
		sc := bufio.NewScanner(strings.NewReader(string(data)))
		sc.Buffer(make([]byte, 1<<20), 1<<27)
		seen := map[string]bool{}
		n, idx := 0, 0
		for sc.Scan() {
			l := strings.TrimSpace(sc.Text())
			if l == "" || seen[l] {
				continue
			}
			seen[l] = true
			if l[0] == '"' {
				var inner string
				if err := json.Unmarshal([]byte(l), &inner); err != nil {
					inner = strings.ReplaceAll(l[1:len(l)-1], `""`, `"`)
				}
				l = inner
			}
			var b []noderun.Step
			if err := json.Unmarshal([]byte(l), &b); err != nil {
				fmt.Fprintln(os.Stderr, "bad behaviour", err)
				os.Exit(2)
			}
			if (*max > 0 && n >= *max) || (*budget > 0 && time.Since(start) > *budget) || len(r.Res.Violations) > 10 {
				break
			}
			idx++
			if (idx-1)%*stride != *offset%*stride {
				continue
			}
			n++
			r.Replay(b)
		}
	}
	js, _ := json.MarshalIndent(r.Res, "", " ")
	os.WriteFile(*out, js, 0o644)
	fmt.Printf("behaviours=%d steps=%d restarts=%d violations=%d errors=%d\n", r.Res.Behaviours, r.Res.Steps, r.Res.Restarts, len(r.Res.Violations), len(r.Res.Errors))
}
