// Command mergereplay replays TLC behaviours of spec/MerkleCRDT.tla on real DefraDB nodes (C01-C04).
package main

import (
	"context"
	"encoding/json"
	"flag"
	"fmt"
	"github.com/sourcenetwork/defradb/verif/cluster"
	"os"
	"strings"
	"sync/atomic"
	"time"

	"github.com/sourcenetwork/defradb/verif/mergereplay"
)

func main() {
	beh := flag.String("beh", "", "ndjson behaviours from TLC (comma separated files)")
	out := flag.String("out", "", "result json")
	seed := flag.Int64("seed", 1, "seed")
	nodes := flag.Int("nodes", 3, "nodes")
	ctrs := flag.String("ctrs", "k", "abstract counter fields")
	regs := flag.String("regs", "r", "abstract register fields")
	variant := flag.String("variant", "plain", "plain|branchable|indexed|wide")
	repeat := flag.Int("repeat", 1, "replay each behaviour this many times with fresh values")
	maxB := flag.Int("max", 0, "max behaviours (0 = all)")
	maximal := flag.Bool("maximal", true, "keep only maximal behaviours of a simulation dump")
	async := flag.Int("async", 0, "every k-th behaviour goes through the event bus merge path")
	budget := flag.Duration("budget", 0, "stop replaying after this long")
	quiesce := flag.Bool("quiesce", false, "after each behaviour deliver all commits to all nodes and compare them")
	only := flag.Int("only", -1, "replay only this behaviour index")
	deep := flag.String("deep", "", "deep-history scenarios a:b,a:b (numbers of updates on two nodes) run before the behaviours")
	deepOnly := flag.Bool("deeponly", false, "run only the deep-history scenarios")
	subEvery := flag.Int("sub", 0, "every k-th behaviour runs with a slow GraphQL subscriber on every node")
	flag.Parse()
	split := func(s string) []string {
		if s == "" {
			return nil
		}
		return strings.Split(s, ",")
	}
	var all []mergereplay.Behaviour
	for _, f := range split(*beh) {
		data, err := os.ReadFile(f)
		if err != nil {
			fmt.Fprintln(os.Stderr, err)
			os.Exit(2)
		}
		bs, err := mergereplay.ParseBehaviours(data, *maximal && !strings.Contains(f, "replays/"))
		if err != nil {
			fmt.Fprintln(os.Stderr, f, err)
			os.Exit(2)
		}
		all = append(all, bs...)
	}
	if *only >= 0 {
		all = all[*only : *only+1]
	}
	if *maxB > 0 && len(all) > *maxB {
		all = all[:*maxB]
	}
	ctx := context.Background()
	d, err := mergereplay.New(ctx, mergereplay.Config{Nodes: *nodes, Ctrs: split(*ctrs), Regs: split(*regs), Variant: *variant, Seed: *seed, AsyncEvery: *async, Quiesce: *quiesce, SubEvery: *subEvery})
	if err != nil {
		fmt.Fprintln(os.Stderr, "driver:", err)
		os.Exit(2)
	}
	for i, ab := range split(*deep) {
		var a, b int
		if _, err := fmt.Sscanf(ab, "%d:%d", &a, &b); err == nil {
			d.DeepScenario(100000+i, a, b)
		}
	}
	if *deepOnly {
		all = nil
	}
	var progress atomic.Int64
	cluster.Watchdog(&progress, 4*time.Minute)
	start := time.Now()
	done := 0
	for r := 0; r < *repeat; r++ {
		for i, b := range all {
			if *budget > 0 && time.Since(start) > *budget {
				break
			}
			d.Replay(i, b)
			done++
			progress.Add(1)
			if len(d.Result().Violations) > 50 {
				break
			}
		}
	}
	d.Close()
	res := d.Result()
	js, _ := json.MarshalIndent(map[string]any{"result": res, "input_behaviours": len(all), "replayed": done, "wall_s": time.Since(start).Seconds()}, "", " ")
	if *out != "" {
		os.WriteFile(*out, js, 0o644)
	} else {
		fmt.Println(string(js))
	}
	if len(res.HarnessErrors) > 0 {
		fmt.Fprintln(os.Stderr, "harness errors:", len(res.HarnessErrors), res.HarnessErrors[0])
	}
}
