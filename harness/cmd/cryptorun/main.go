// Command cryptorun replays Crypto.tla behaviours (C11) and the signature case table (C12).
package main

import (
	"bufio"
	"context"
	"encoding/json"
	"flag"
	"fmt"
	"os"
	"strings"
	"time"

	"github.com/sourcenetwork/defradb/crypto"
	"github.com/sourcenetwork/defradb/verif/cryptorun"
)

func lines(path string, fn func(string)) {
	f, err := os.Open(path)
	if err != nil {
		fmt.Fprintln(os.Stderr, err)
		os.Exit(2)
	}
	defer f.Close()
	sc := bufio.NewScanner(f)
	sc.Buffer(make([]byte, 1<<20), 1<<26)
	seen := map[string]bool{}
	for sc.Scan() {
		l := strings.TrimSpace(sc.Text())
		if l == "" || seen[l] {
			continue
		}
		seen[l] = true
		if l[0] == '"' {
			var inner string
			if err := json.Unmarshal([]byte(l), &inner); err != nil {
				inner = strings.ReplaceAll(l[1:len(l)-1], `""`, `"`)
			}
			l = inner
		}
		fn(l)
	}
}

func main() {
	enc := flag.String("enc", "", "C11 behaviours (ndjson)")
	sig := flag.String("sig", "", "C12 case table (ndjson)")
	out := flag.String("out", "", "result json")
	max := flag.Int("max", 0, "max behaviours")
	budget := flag.Duration("budget", 0, "budget")
	stride := flag.Int("stride", 1, "replay every k-th behaviour")
	offset := flag.Int("offset", 0, "first behaviour index of the stride")
	flag.Parse()
	r := &cryptorun.Runner{Ctx: context.Background(), Res: &cryptorun.Result{}}
	start := time.Now()
	if *enc != "" {
		n, idx := 0, -1
		lines(*enc, func(l string) {
			idx++
			if *stride > 1 && idx%*stride != *offset%*stride {
				return
			}
			if (*max > 0 && n >= *max) || (*budget > 0 && time.Since(start) > *budget) || len(r.Res.Violations) > 60 {
				return
			}
			var b cryptorun.Behaviour
			if strings.HasPrefix(l, "{\"property\"") || strings.Contains(l[:min(len(l), 40)], "behaviour_data") {
				var o struct {
					Data cryptorun.Behaviour `json:"behaviour_data"`
				}
				json.Unmarshal([]byte(l), &o)
				b = o.Data
			} else if err := json.Unmarshal([]byte(l), &b); err != nil {
				fmt.Fprintln(os.Stderr, "bad behaviour:", err)
				os.Exit(2)
			}
			n++
			r.ReplayEnc(&b)
		})
	}
	if *sig != "" {
		var cases []cryptorun.SigCase
		lines(*sig, func(l string) {
			var c cryptorun.SigCase
			if err := json.Unmarshal([]byte(l), &c); err != nil {
				fmt.Fprintln(os.Stderr, "bad case:", err)
				os.Exit(2)
			}
			cases = append(cases, c)
		})
		r.RunSig(cases, crypto.KeyTypeSecp256k1)
		r.RunSig(cases, crypto.KeyTypeEd25519)
	}
	js, _ := json.MarshalIndent(r.Res, "", " ")
	os.WriteFile(*out, js, 0o644)
	fmt.Printf("behaviours=%d writes=%d sigcases=%d violations=%d errors=%d\n", r.Res.Behaviours, r.Res.Writes, r.Res.SigCases, len(r.Res.Violations), len(r.Res.Errors))
}
