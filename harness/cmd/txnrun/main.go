// Command txnrun executes KVTxn schedules on real nodes and writes the recorded trace (ndjson).
package main

import (
	"bufio"
	"context"
	"encoding/json"
	"flag"
	"fmt"
	"os"
	"strings"
	"time"

	"github.com/sourcenetwork/defradb/verif/txnrun"
)

func parseSchedules(path string, max int, stride int) ([][]txnrun.Op, error) {
	f, err := os.Open(path)
	if err != nil {
		return nil, err
	}
	defer f.Close()
	var out [][]txnrun.Op
	sc := bufio.NewScanner(f)
	sc.Buffer(make([]byte, 1<<20), 1<<26)
	seen := map[string]bool{}
	i := 0
	for sc.Scan() {
		line := strings.TrimSpace(sc.Text())
		if line == "" {
			continue
		}
		inner := line
		if line[0] == '"' {
			s := line[1 : len(line)-1]
			if strings.Contains(s, `\"`) {
				if err := json.Unmarshal([]byte(line), &inner); err != nil {
					return nil, err
				}
			} else {
				inner = strings.ReplaceAll(s, `""`, `"`)
			}
		}
		if seen[inner] {
			continue
		}
		seen[inner] = true
		i++
		if stride > 1 && i%stride != 0 {
			continue
		}
		var ops []txnrun.Op
		if err := json.Unmarshal([]byte(inner), &ops); err != nil {
			return nil, fmt.Errorf("bad schedule: %w", err)
		}
		out = append(out, ops)
		if max > 0 && len(out) >= max {
			break
		}
	}
	return out, sc.Err()
}

func main() {
	sched := flag.String("sched", "", "schedules exported by TLC (ndjson)")
	out := flag.String("out", "", "trace ndjson")
	stats := flag.String("stats", "", "stats json")
	subs := flag.Int("subs", 2, "event bus subscribers")
	variant := flag.String("variant", "plain", "plain|indexed|branchable|concurrent|patched")
	max := flag.Int("max", 0, "max schedules")
	stride := flag.Int("stride", 1, "take every k-th schedule")
	budget := flag.Duration("budget", 0, "time budget")
	gqlEvery := flag.Int("gql", 0, "every k-th schedule runs with a slow GraphQL subscriber")
	replayfile := flag.Bool("replayfile", false, "-sched is a replay file written by bin/check (JSON object with a schedule)")
	flag.Parse()
	sdl := txnrun.SDL
	switch *variant {
	case "indexed":
		sdl = txnrun.SDLIndexed
	case "branchable":
		sdl = txnrun.SDLBranchable
	}
	ctx := context.Background()
	var scheds [][]txnrun.Op
	var err error
	if *replayfile {
		var o struct {
			Schedule []txnrun.Op `json:"schedule"`
		}
		data, rerr := os.ReadFile(*sched)
		if rerr == nil {
			rerr = json.Unmarshal(data, &o)
		}
		err = rerr
		scheds = [][]txnrun.Op{o.Schedule}
	} else {
		scheds, err = parseSchedules(*sched, *max, *stride)
	}
	if err != nil {
		fmt.Fprintln(os.Stderr, err)
		os.Exit(2)
	}
	r, err := txnrun.NewRunner(ctx, *subs, sdl, []string{"d1", "d2", "d3"})
	if err != nil {
		fmt.Fprintln(os.Stderr, err)
		os.Exit(2)
	}
	r.ConcurrentTxns = *variant == "concurrent"
	r.PatchFirst = *variant == "patched"
	r.GqlEvery = *gqlEvery
	f, err := os.Create(*out)
	if err != nil {
		fmt.Fprintln(os.Stderr, err)
		os.Exit(2)
	}
	w := bufio.NewWriter(f)
	start := time.Now()
	nl, ns := 0, 0
	byop := map[string]int{}
	byres := map[string]int{}
	starts := []int{}
	for _, ops := range scheds {
		if *budget > 0 && time.Since(start) > *budget {
			break
		}
		lines, err := r.RunSchedule(ops)
		if err != nil {
			fmt.Fprintln(os.Stderr, "schedule failed:", err)
			os.Exit(2)
		}
		starts = append(starts, nl+1)
		for _, l := range lines {
			b, _ := json.Marshal(l)
			w.Write(b)
			w.WriteByte('\n')
			nl++
			byop[l.Op]++
			if l.Res != "" {
				byres[l.Op+":"+l.Res]++
			}
		}
		ns++
	}
	w.Flush()
	f.Close()
	js, _ := json.Marshal(map[string]any{"schedules": ns, "lines": nl, "by_op": byop, "by_result": byres, "wall_s": time.Since(start).Seconds(), "starts": starts})
	if *stats != "" {
		os.WriteFile(*stats, js, 0o644)
	}
	fmt.Println(string(js)[:min(len(js), 600)])
}
