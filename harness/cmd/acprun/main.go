// Command acprun replays ACP behaviours (C10).
package main

import (
	"bufio"
	"context"
	"encoding/json"
	"flag"
	"fmt"
	"os"
	"strings"
	"time"

	"github.com/sourcenetwork/defradb/verif/acprun"
)

func main() {
	beh := flag.String("beh", "", "behaviours ndjson")
	out := flag.String("out", "", "result")
	max := flag.Int("max", 0, "max behaviours")
	budget := flag.Duration("budget", 0, "budget")
	full := flag.Bool("full", false, "every request kind at every step")
	subEvery := flag.Int("sub", 0, "every k-th behaviour runs with a subscription per requester")
	flag.Parse()
	f, err := os.Open(*beh)
	if err != nil {
		fmt.Fprintln(os.Stderr, err)
		os.Exit(2)
	}
	sc := bufio.NewScanner(f)
	sc.Buffer(make([]byte, 1<<20), 1<<27)
	var all [][]acprun.Step
	seen := map[string]bool{}
	data, _ := os.ReadFile(*beh)
	if t := strings.TrimSpace(string(data)); strings.HasPrefix(t, "{") {
		var o struct {
			Data []acprun.Step `json:"behaviour_data"`
		}
		if err := json.Unmarshal([]byte(t), &o); err != nil {
			fmt.Fprintln(os.Stderr, err)
			os.Exit(2)
		}
		all = append(all, o.Data)
	} else {
		for sc.Scan() {
			line := strings.TrimSpace(sc.Text())
			if line == "" || seen[line] {
				continue
			}
			seen[line] = true
			var inner string
			if line[0] == '"' {
				if err := json.Unmarshal([]byte(line), &inner); err != nil {
					inner = strings.ReplaceAll(line[1:len(line)-1], `""`, `"`)
				}
			} else {
				inner = line
			}
			var b []acprun.Step
			if err := json.Unmarshal([]byte(inner), &b); err != nil {
				fmt.Fprintln(os.Stderr, "bad behaviour", err)
				os.Exit(2)
			}
			all = append(all, b)
			if *max > 0 && len(all) >= *max {
				break
			}
		}
	}
	r, err := acprun.NewRunner(context.Background(), 3)
	if err != nil {
		fmt.Fprintln(os.Stderr, err)
		os.Exit(2)
	}
	r.Full = *full
	r.SubEvery = *subEvery
	start := time.Now()
	for i, b := range all {
		if *budget > 0 && time.Since(start) > *budget {
			break
		}
		r.Replay(i, b)
		if len(r.Res.Violations) > 40 {
			break
		}
	}
	js, _ := json.MarshalIndent(map[string]any{"result": r.Res, "input": len(all), "wall_s": time.Since(start).Seconds()}, "", " ")
	os.WriteFile(*out, js, 0o644)
	fmt.Printf("behaviours=%d steps=%d requests=%d violations=%d\n", r.Res.Behaviours, r.Res.Steps, r.Res.Requests, len(r.Res.Violations))
}
