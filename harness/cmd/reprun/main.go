// Command reprun replays environment schedules of spec/Replicator.tla on a real loopback pair A -> B (C15).
package main

import (
	"context"
	"encoding/json"
	"flag"
	"fmt"
	"os"
	"sort"
	"strings"
	"sync"
	"time"

	"github.com/sourcenetwork/immutable"
	"github.com/sourcenetwork/lens/host-go/config/model"

	"github.com/sourcenetwork/defradb/client"
	"github.com/sourcenetwork/defradb/internal/db"
	"github.com/sourcenetwork/defradb/net"
	"github.com/sourcenetwork/defradb/verif/cluster"
	"github.com/sourcenetwork/defradb/verif/p2p"
)

type step struct {
	Op   string `json:"op"`   // write | bdown | bup | patch | settle
	D    int    `json:"d"`    // document
	Kind string `json:"kind"` // bdown: net | restart ; or "restart-before-merge" (gated)
}

type schedule struct {
	Name  string `json:"name"`
	Mode  string `json:"mode"` // "" = replicator A -> B ; "pubsub" = B subscribes to the collection instead
	Steps []step `json:"steps"`
}

type outcome struct {
	Name      string   `json:"name"`
	Steps     []step   `json:"steps"`
	Delivered bool     `json:"delivered"`
	WaitedS   float64  `json:"waited_s"`
	Missing   []string `json:"missing"`
	Err       string   `json:"err,omitempty"`
}

const sdl = "type T {\n k: Int\n v: Int\n}"

func dumpDocs(ctx context.Context, n *cluster.Node) (string, error) {
	d, err := n.Exec(ctx, `query { T(order: {k: ASC}) { k v w } }`)
	if err != nil {
		d, err = n.Exec(ctx, `query { T(order: {k: ASC}) { k v } }`)
		if err != nil {
			return "", err
		}
	}
	b, _ := json.Marshal(d)
	return string(b), nil
}

// gates: goroutines of the real code reaching a held point block until it is released
type gate struct {
	hold    bool
	reached chan struct{}
	release chan struct{}
}

var (
	gateMu sync.Mutex
	gates  = map[string]*gate{} // key: node name + ":" + point
)

func gateOf(key string) *gate {
	g, ok := gates[key]
	if !ok {
		g = &gate{reached: make(chan struct{}, 64), release: make(chan struct{})}
		gates[key] = g
	}
	return g
}

func atPoint(key string) {
	if os.Getenv("VERIF_DEBUG") != "" {
		fmt.Fprintln(os.Stderr, "GATE", key)
	}
	gateMu.Lock()
	g := gateOf(key)
	hold, rel := g.hold, g.release
	gateMu.Unlock()
	if hold {
		select {
		case g.reached <- struct{}{}:
		default:
		}
		<-rel
	}
}

func setHold(key string, hold bool) {
	gateMu.Lock()
	g := gateOf(key)
	if hold {
		g.hold = true
	} else {
		g.hold = false
		close(g.release)
		g.release = make(chan struct{})
	}
	gateMu.Unlock()
}

func resetGates() {
	gateMu.Lock()
	for _, g := range gates {
		if g.hold {
			g.hold = false
			close(g.release)
			g.release = make(chan struct{})
		}
	}
	gates = map[string]*gate{}
	gateMu.Unlock()
}

var hosts []*p2p.Host

func anyHold() bool {
	gateMu.Lock()
	defer gateMu.Unlock()
	for _, g := range gates {
		if g.hold {
			return true
		}
	}
	return false
}

func main() {
	in := flag.String("sched", "", "schedules json (array)")
	out := flag.String("out", "", "result")
	deadline := flag.Duration("deadline", 25*time.Second, "how long to wait for B to catch up after the schedule")
	max := flag.Int("max", 0, "max schedules")
	flag.Parse()
	ctx := context.Background()
	raw, err := os.ReadFile(*in)
	if err != nil {
		fmt.Fprintln(os.Stderr, err)
		os.Exit(2)
	}
	var scheds []schedule
	if t := strings.TrimSpace(string(raw)); strings.HasPrefix(t, "[{\"name\"") || strings.HasPrefix(t, "[\n") || strings.HasPrefix(t, "[ ") {
		if err := json.Unmarshal(raw, &scheds); err != nil {
			fmt.Fprintln(os.Stderr, err)
			os.Exit(2)
		}
	} else {
		// one schedule per line as exported by TLC (CSV-quoted JSON array of environment steps)
		seen := map[string]bool{}
		for i, l := range strings.Split(t, "\n") {
			l = strings.TrimSpace(l)
			if l == "" || seen[l] {
				continue
			}
			seen[l] = true
			if l[0] == '"' {
				var inner string
				if err := json.Unmarshal([]byte(l), &inner); err != nil {
					inner = strings.ReplaceAll(l[1:len(l)-1], `""`, `"`)
				}
				l = inner
			}
			var st []step
			if err := json.Unmarshal([]byte(l), &st); err != nil {
				fmt.Fprintln(os.Stderr, "bad schedule:", err)
				os.Exit(2)
			}
			scheds = append(scheds, schedule{Name: fmt.Sprintf("tlc-%d", i), Steps: st})
		}
	}
	if *max > 0 && len(scheds) > *max {
		scheds = scheds[:*max]
	}
	db.VerifGate = func(point string, d *db.DB, key string) {
		if h := p2p.DBOf(hosts, d); h != nil {
			atPoint(h.Name + ":" + point)
		}
	}
	net.VerifGate = func(point string, p *net.Peer, key string) {
		if p == nil {
			// syncDAG has no peer at hand; in these scenarios only B receives pushes
			atPoint("B:" + point)
			return
		}
		for _, h := range hosts {
			if h.Peer == p {
				atPoint(h.Name + ":" + point)
			}
		}
	}
	var results []outcome
	for _, sc := range scheds {
		o := run(ctx, sc, *deadline)
		results = append(results, o)
		fmt.Printf("%s delivered=%v waited=%.1fs %s\n", sc.Name, o.Delivered, o.WaitedS, o.Err)
	}
	js, _ := json.MarshalIndent(results, "", " ")
	os.WriteFile(*out, js, 0o644)
}

func run(ctx context.Context, sc schedule, deadline time.Duration) outcome {
	o := outcome{Name: sc.Name, Steps: sc.Steps}
	fail := func(f string, a ...any) outcome { o.Err = fmt.Sprintf(f, a...); return o }
	retry := []time.Duration{200 * time.Millisecond, 300 * time.Millisecond, 500 * time.Millisecond}
	a, err := p2p.NewHost(ctx, "A", retry, true)
	if err != nil {
		return fail("host A: %v", err)
	}
	defer a.Stop()
	b, err := p2p.NewHost(ctx, "B", retry, true)
	if err != nil {
		return fail("host B: %v", err)
	}
	hosts = []*p2p.Host{a, b}
	defer func() {
		resetGates()
		b.Stop()
	}()
	for _, h := range []*p2p.Host{a, b} {
		if _, err := h.Node.DB.AddSchema(ctx, sdl); err != nil {
			return fail("schema: %v", err)
		}
	}
	if err := a.Peer.Connect(ctx, b.Peer.PeerInfo()); err != nil {
		return fail("connect: %v", err)
	}
	if sc.Mode == "pubsub" {
		cols, err := b.Node.DB.GetCollections(ctx, client.CollectionFetchOptions{})
		if err != nil || len(cols) == 0 {
			return fail("collections: %v", err)
		}
		if err := b.Peer.AddP2PCollections(ctx, cols[0].Name()); err != nil {
			return fail("AddP2PCollections: %v", err)
		}
		time.Sleep(500 * time.Millisecond) // let the gossip mesh form
	} else if err := a.Peer.SetReplicator(ctx, b.Peer.PeerInfo()); err != nil {
		return fail("SetReplicator: %v", err)
	}
	pendingPatch := false
	patchB := func() error {
		return b.Node.DB.PatchSchema(ctx, `[{"op": "add", "path": "/T/Fields/-", "value": {"Name": "w", "Kind": "Int"}}]`, immutable.None[model.Lens](), true)
	}
	ids := map[int]string{}
	vals := map[int]int{}
	bDown := false
	for si, st := range sc.Steps {
		switch st.Op {
		case "write":
			if id, ok := ids[st.D]; ok {
				vals[st.D]++
				if _, err := a.Node.Exec(ctx, fmt.Sprintf(`mutation { update_T(docID: %q, input: {v: %d}) { _docID } }`, id, vals[st.D])); err != nil {
					return fail("step %d update: %v", si, err)
				}
			} else {
				vals[st.D] = 1
				d, err := a.Node.Exec(ctx, fmt.Sprintf(`mutation { create_T(input: {k: %d, v: 1}) { _docID } }`, st.D))
				if err != nil {
					return fail("step %d create: %v", si, err)
				}
				ids[st.D] = cluster.Rows(d, "create_T")[0]["_docID"].(string)
			}
			time.Sleep(150 * time.Millisecond) // let the push goroutine run (or fail) before the next environment event
			if !bDown && !anyHold() {
				// B is reachable: let it merge before the next environment event; the race between the
				// acknowledgement and the merge is exercised by the directed (gated) schedules only
				for w := 0; w < 30; w++ {
					da, e1 := dumpDocs(ctx, a.Node)
					db2, e2 := dumpDocs(ctx, b.Node)
					if e1 == nil && e2 == nil && da == db2 {
						break
					}
					time.Sleep(100 * time.Millisecond)
				}
			}
		case "bdown":
			switch st.Kind {
			case "net":
				b.NetDown()
			case "restart":
				b.Stop()
			case "restart-held":
				// B's process dies while one of its goroutines is parked at a held point: the network goes first,
				// then the parked goroutine is let go (whatever it does next happens on a dead peer), then the database
				// (Peer.Close closes the block service and the host, then waits for the in-flight handlers)
				go func() {
					time.Sleep(700 * time.Millisecond)
					resetGates()
				}()
				b.NetDown()
				b.Stop()
			}
			bDown = true
		case "hold":
			setHold(st.Kind, true)
		case "await":
			gateMu.Lock()
			g := gateOf(st.Kind)
			gateMu.Unlock()
			select {
			case <-g.reached:
			case <-time.After(12 * time.Second):
				return fail("step %d: the real code never reached %s", si, st.Kind)
			}
		case "release":
			setHold(st.Kind, false)
			time.Sleep(300 * time.Millisecond)
		case "bup":
			if b.Node == nil {
				if err := b.StartDB(ctx); err != nil {
					return fail("step %d restart db: %v", si, err)
				}
			}
			if pendingPatch {
				if err := patchB(); err != nil {
					return fail("step %d patch B after restart: %v", si, err)
				}
				pendingPatch = false
			}
			if b.Peer == nil {
				if err := b.StartPeer(ctx); err != nil {
					return fail("step %d restart peer: %v", si, err)
				}
			}
			bDown = false
			time.Sleep(100 * time.Millisecond)
		case "patch":
			if err := a.Node.DB.PatchSchema(ctx, `[{"op": "add", "path": "/T/Fields/-", "value": {"Name": "w", "Kind": "Int"}}]`, immutable.None[model.Lens](), true); err != nil {
				return fail("step %d patch A: %v", si, err)
			}
			if b.Node == nil {
				pendingPatch = true // B's operator applies the patch when the process is back
			} else if err := patchB(); err != nil {
				return fail("step %d patch B: %v", si, err)
			}
		case "settle":
			time.Sleep(2500 * time.Millisecond) // longer than one turn of the retry loop
		}
	}
	if bDown {
		return fail("schedule ends with B down")
	}
	// traffic has stopped and B is reachable: B's documents must become equal to A's
	start := time.Now()
	for {
		da, err1 := dumpDocs(ctx, a.Node)
		dbb, err2 := dumpDocs(ctx, b.Node)
		if err1 == nil && err2 == nil && da == dbb {
			o.Delivered = true
			break
		}
		if time.Since(start) > deadline {
			o.Missing = []string{"A: " + da, "B: " + dbb}
			break
		}
		time.Sleep(250 * time.Millisecond)
	}
	o.WaitedS = time.Since(start).Seconds()
	_ = sort.Strings
	_ = strings.Join
	return o
}
