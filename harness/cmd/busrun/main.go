// Command busrun replays command sequences of spec/EventBus.tla on a real event.NewChannelBus and compares, after every
// command, what each subscriber has received and whether its channel is closed.
package main

import (
	"bufio"
	"encoding/json"
	"flag"
	"fmt"
	"os"
	"sort"
	"strings"
	"time"

	"github.com/sourcenetwork/defradb/event"
)

type obs struct {
	Got    map[string][]int `json:"got"`
	Closed map[string]bool  `json:"closed"`
}

type step struct {
	Op  string   `json:"op"`
	S   string   `json:"s"`
	Ns  []string `json:"ns"`
	N   string   `json:"n"`
	ID  int      `json:"id"`
	Res string   `json:"res"`
	Obs obs      `json:"obs"`
}

type violation struct {
	Property string `json:"property"`
	Kind     string `json:"kind"`
	Step     int    `json:"step"`
	Msg      string `json:"msg"`
	Data     []step `json:"behaviour_data,omitempty"`
}

type result struct {
	Behaviours int         `json:"behaviours"`
	Steps      int         `json:"steps"`
	Compared   int         `json:"comparisons"`
	Violations []violation `json:"violations"`
	Errors     []string    `json:"harness_errors"`
}

var res result

const fenceName = event.Name("verif-fence")

func replay(b []step) {
	res.Behaviours++
	viol := func(kind string, si int, f string, a ...any) {
		if len(res.Violations) < 20 {
			res.Violations = append(res.Violations, violation{Property: "C20", Kind: kind, Step: si, Msg: fmt.Sprintf(f, a...), Data: b})
		}
	}
	bus := event.NewChannelBus(16, 256)
	fence, err := bus.Subscribe(fenceName)
	if err != nil {
		res.Errors = append(res.Errors, err.Error())
		return
	}
	subs := map[string]event.Subscription{}
	got := map[string][]int{}
	closed := map[string]bool{}
	busClosed := false
	nfence := 0
	for si, st := range b {
		res.Steps++
		switch st.Op {
		case "subscribe":
			var names []event.Name
			for _, n := range st.Ns {
				names = append(names, event.Name(n))
			}
			s, err := bus.Subscribe(names...)
			if (err != nil) != (st.Res == "error") {
				viol("subscribe", si, "Subscribe(%v) returned %v, the specification says %s", st.Ns, err, st.Res)
				return
			}
			if err == nil {
				subs[st.S] = s
			}
		case "unsubscribe":
			if s, ok := subs[st.S]; ok {
				bus.Unsubscribe(s)
			}
		case "publish":
			bus.Publish(event.NewMessage(event.Name(st.N), st.ID))
		case "close":
			done := make(chan struct{})
			go func() { bus.Close(); close(done) }()
			select {
			case <-done:
			case <-time.After(5 * time.Second):
				viol("close-hang", si, "Close did not return within 5s")
				return
			}
			busClosed = true
		}
		// the commands are handled in order by one goroutine: once the fence message is back, this command has been handled
		if !busClosed {
			nfence++
			bus.Publish(event.NewMessage(fenceName, nfence))
			select {
			case m, ok := <-fence.Message():
				if !ok || m.Data.(int) != nfence {
					viol("fence", si, "fence message %d came back as %v (channel open: %v)", nfence, m.Data, ok)
					return
				}
			case <-time.After(5 * time.Second):
				viol("bus-stuck", si, "the bus did not handle %s within 5s", st.Op)
				return
			}
		} else {
			time.Sleep(2 * time.Millisecond)
		}
		for name, s := range subs {
		drain:
			for {
				select {
				case m, ok := <-s.Message():
					if !ok {
						closed[name] = true
						break drain
					}
					if m.Name == fenceName {
						continue // a wildcard subscriber sees the harness's fence messages too
					}
					id, _ := m.Data.(int)
					got[name] = append(got[name], id)
				default:
					break drain
				}
			}
		}
		res.Compared++
		var names []string
		for n := range st.Obs.Got {
			names = append(names, n)
		}
		sort.Strings(names)
		for _, n := range names {
			if fmt.Sprint(got[n]) != fmt.Sprint(st.Obs.Got[n]) && !(len(got[n]) == 0 && len(st.Obs.Got[n]) == 0) {
				viol("delivery", si, "after %s subscriber %s has received %v, the specification says %v", st.Op, n, got[n], st.Obs.Got[n])
				return
			}
			if closed[n] != st.Obs.Closed[n] {
				viol("closed", si, "after %s the channel of subscriber %s is closed=%v, the specification says %v", st.Op, n, closed[n], st.Obs.Closed[n])
				return
			}
		}
	}
	if !busClosed {
		bus.Close()
	}
}

func main() {
	beh := flag.String("beh", "", "behaviours (ndjson)")
	out := flag.String("out", "", "result")
	max := flag.Int("max", 0, "max behaviours")
	flag.Parse()
	data, err := os.ReadFile(*beh)
	if err != nil {
		fmt.Fprintln(os.Stderr, err)
		os.Exit(2)
	}
	if t := strings.TrimSpace(string(data)); strings.HasPrefix(t, "{") {
		var o struct {
			Data []step `json:"behaviour_data"`
		}
		if err := json.Unmarshal([]byte(t), &o); err != nil || o.Data == nil {
			fmt.Fprintln(os.Stderr, "bad replay file", err)
			os.Exit(2)
		}
		replay(o.Data)
	} else {
		sc := bufio.NewScanner(strings.NewReader(string(data)))
		sc.Buffer(make([]byte, 1<<20), 1<<27)
		seen := map[string]bool{}
		for sc.Scan() {
			l := strings.TrimSpace(sc.Text())
			if l == "" || seen[l] {
				continue
			}
			seen[l] = true
			if l[0] == '"' {
				var inner string
				if err := json.Unmarshal([]byte(l), &inner); err != nil {
					inner = strings.ReplaceAll(l[1:len(l)-1], `""`, `"`)
				}
				l = inner
			}
			var b []step
			if err := json.Unmarshal([]byte(l), &b); err != nil {
				fmt.Fprintln(os.Stderr, "bad behaviour", err)
				os.Exit(2)
			}
			if (*max > 0 && res.Behaviours >= *max) || len(res.Violations) > 5 {
				break
			}
			replay(b)
		}
	}
	js, _ := json.MarshalIndent(res, "", " ")
	os.WriteFile(*out, js, 0o644)
	fmt.Printf("behaviours=%d steps=%d violations=%d errors=%d\n", res.Behaviours, res.Steps, len(res.Violations), len(res.Errors))
}
