// Command keyorder checks the case table of spec/KeyOrder.tla against the real index key encoder (C17).
package main

import (
	"bufio"
	"bytes"
	"encoding/json"
	"flag"
	"fmt"
	"math"
	"os"
	"strconv"
	"time"

	"github.com/sourcenetwork/defradb/client"
	"github.com/sourcenetwork/defradb/internal/encoding"
	"github.com/sourcenetwork/defradb/internal/keys"
)

type pair struct {
	Kind   string `json:"kind"`
	A      string `json:"a"`
	B      string `json:"b"`
	Desc   bool   `json:"desc"`
	Expect int    `json:"expect"`
}
type tuple struct {
	K1, K2, A1, A2, B1, B2 string
	D1, D2                 bool
	Expect                 int
}

func unescape(s string) string {
	var out []byte
	for i := 0; i < len(s); i++ {
		if s[i] == '\\' && i+3 < len(s) && s[i+1] == 'x' {
			v, _ := strconv.ParseUint(s[i+2:i+4], 16, 8)
			out = append(out, byte(v))
			i += 3
		} else {
			out = append(out, s[i])
		}
	}
	return string(out)
}

func kindOf(k string) client.FieldKind {
	switch k {
	case "Int":
		return client.FieldKind_NILLABLE_INT
	case "Float64":
		return client.FieldKind_NILLABLE_FLOAT64
	case "Float32":
		return client.FieldKind_NILLABLE_FLOAT32
	case "Bool":
		return client.FieldKind_NILLABLE_BOOL
	case "String":
		return client.FieldKind_NILLABLE_STRING
	case "DateTime":
		return client.FieldKind_NILLABLE_DATETIME
	}
	panic(k)
}

func value(kind, name string) (client.NormalValue, error) {
	if name == "null" {
		return client.NewNormalNil(kindOf(kind))
	}
	switch kind {
	case "Int":
		v, err := strconv.ParseInt(name, 10, 64)
		return client.NewNormalInt(v), err
	case "Bool":
		return client.NewNormalBool(name == "true"), nil
	case "String":
		return client.NewNormalString(unescape(name)), nil
	case "DateTime":
		t, err := time.Parse(time.RFC3339Nano, name)
		return client.NewNormalTime(t), err
	case "Float64":
		f, err := float64Of(name)
		return client.NewNormalFloat64(f), err
	case "Float32":
		f, err := float64Of(name)
		switch name {
		case "MaxFloat32":
			return client.NewNormalFloat32(math.MaxFloat32), nil
		case "-MaxFloat32":
			return client.NewNormalFloat32(-math.MaxFloat32), nil
		case "SmallestNonzero32":
			return client.NewNormalFloat32(math.SmallestNonzeroFloat32), nil
		case "-SmallestNonzero32":
			return client.NewNormalFloat32(-math.SmallestNonzeroFloat32), nil
		case "1.0000001":
			return client.NewNormalFloat32(math.Nextafter32(1, 2)), nil
		}
		return client.NewNormalFloat32(float32(f)), err
	}
	return nil, fmt.Errorf("unknown kind %s", kind)
}

func float64Of(name string) (float64, error) {
	switch name {
	case "-Inf":
		return math.Inf(-1), nil
	case "+Inf":
		return math.Inf(1), nil
	case "MaxFloat64":
		return math.MaxFloat64, nil
	case "-MaxFloat64":
		return -math.MaxFloat64, nil
	case "SmallestNonzero":
		return math.SmallestNonzeroFloat64, nil
	case "-SmallestNonzero":
		return -math.SmallestNonzeroFloat64, nil
	case "SmallestNormal":
		return math.Float64frombits(0x0010000000000000), nil
	case "-SmallestNormal":
		return -math.Float64frombits(0x0010000000000000), nil
	case "-0":
		return math.Copysign(0, -1), nil
	case "+0":
		return 0, nil
	case "MaxFloat32", "-MaxFloat32", "SmallestNonzero32", "-SmallestNonzero32":
		return 0, nil
	}
	return strconv.ParseFloat(name, 64)
}

func sign(x int) int {
	if x < 0 {
		return -1
	}
	if x > 0 {
		return 1
	}
	return 0
}

// same reports whether the decoded value is the written one, bit-exact for floats and ns-exact for times.
func same(kind string, a, b client.NormalValue) bool {
	if a.IsNil() || b.IsNil() {
		return a.IsNil() && b.IsNil()
	}
	switch kind {
	case "Float64":
		x, ok1 := a.Float64()
		y, ok2 := b.Float64()
		return ok1 && ok2 && math.Float64bits(x) == math.Float64bits(y)
	case "Float32":
		x, ok1 := a.Float32()
		y, ok2 := b.Float32()
		return ok1 && ok2 && math.Float32bits(x) == math.Float32bits(y)
	case "DateTime":
		x, ok1 := a.Time()
		y, ok2 := b.Time()
		return ok1 && ok2 && x.Equal(y) && x.Nanosecond() == y.Nanosecond()
	}
	return fmt.Sprint(a.Unwrap()) == fmt.Sprint(b.Unwrap())
}

type mismatch struct {
	Kind string `json:"kind"`
	Case any    `json:"case"`
	Msg  string `json:"msg"`
}

func main() {
	in := flag.String("cases", "", "prefix of the case files (.pairs, .tuples)")
	out := flag.String("out", "", "result json")
	flag.Parse()
	var mm []mismatch
	npairs, ntuples, nround := 0, 0, 0
	add := func(kind string, c any, f string, a ...any) {
		if len(mm) < 200 {
			mm = append(mm, mismatch{kind, c, fmt.Sprintf(f, a...)})
		}
	}
	readLines := func(path string, fn func([]byte)) {
		f, err := os.Open(path)
		if err != nil {
			fmt.Fprintln(os.Stderr, err)
			os.Exit(2)
		}
		defer f.Close()
		sc := bufio.NewScanner(f)
		sc.Buffer(make([]byte, 1<<20), 1<<24)
		for sc.Scan() {
			if len(bytes.TrimSpace(sc.Bytes())) > 0 {
				fn(append([]byte{}, sc.Bytes()...))
			}
		}
	}
	roundDone := map[string]bool{}
	readLines(*in+".pairs", func(b []byte) {
		var p pair
		if err := json.Unmarshal(b, &p); err != nil {
			fmt.Fprintln(os.Stderr, "bad case", err)
			os.Exit(2)
		}
		va, err1 := value(p.Kind, p.A)
		vb, err2 := value(p.Kind, p.B)
		if err1 != nil || err2 != nil {
			fmt.Fprintln(os.Stderr, "bad value", p, err1, err2)
			os.Exit(2)
		}
		npairs++
		ea := encoding.EncodeFieldValue(nil, va, p.Desc)
		eb := encoding.EncodeFieldValue(nil, vb, p.Desc)
		if got := sign(bytes.Compare(ea, eb)); got != p.Expect {
			add("order", p, "%s %s: compare(Encode(%s), Encode(%s)) = %d, value order gives %d (desc=%v) [% x | % x]", p.Kind, dir(p.Desc), p.A, p.B, got, p.Expect, p.Desc, ea, eb)
		}
		// the same through a complete index key (collection, index id, field, docID suffix)
		ka := keys.IndexDataStoreKey{CollectionShortID: 1, IndexID: 1, Fields: []keys.IndexedField{{Value: va, Descending: p.Desc}}}
		kb := keys.IndexDataStoreKey{CollectionShortID: 1, IndexID: 1, Fields: []keys.IndexedField{{Value: vb, Descending: p.Desc}}}
		if got := sign(bytes.Compare(ka.Bytes(), kb.Bytes())); got != p.Expect {
			add("key-order", p, "%s %s: index keys of %s and %s compare %d, expected %d", p.Kind, dir(p.Desc), p.A, p.B, got, p.Expect)
		}
		rk := p.Kind + "|" + p.A + "|" + fmt.Sprint(p.Desc)
		if !roundDone[rk] {
			roundDone[rk] = true
			nround++
			rest, dec, err := encoding.DecodeFieldValue(ea, p.Desc, kindOf(p.Kind))
			if err != nil || len(rest) != 0 || !same(p.Kind, va, dec) {
				add("round-trip", p, "%s %s: Decode(Encode(%s)) = %v (err %v, %d bytes left), written %v", p.Kind, dir(p.Desc), p.A, unwrap(dec), err, len(rest), va.Unwrap())
			}
		}
	})
	readLines(*in+".tuples", func(b []byte) {
		var raw map[string]any
		json.Unmarshal(b, &raw)
		t := tuple{K1: raw["k1"].(string), K2: raw["k2"].(string), A1: raw["a1"].(string), A2: raw["a2"].(string), B1: raw["b1"].(string), B2: raw["b2"].(string),
			D1: raw["d1"].(bool), D2: raw["d2"].(bool), Expect: int(raw["expect"].(float64))}
		a1, _ := value(t.K1, t.A1)
		a2, _ := value(t.K2, t.A2)
		b1, _ := value(t.K1, t.B1)
		b2, _ := value(t.K2, t.B2)
		ntuples++
		ka := keys.IndexDataStoreKey{CollectionShortID: 1, IndexID: 1, Fields: []keys.IndexedField{{Value: a1, Descending: t.D1}, {Value: a2, Descending: t.D2}}}
		kb := keys.IndexDataStoreKey{CollectionShortID: 1, IndexID: 1, Fields: []keys.IndexedField{{Value: b1, Descending: t.D1}, {Value: b2, Descending: t.D2}}}
		if got := sign(bytes.Compare(ka.Bytes(), kb.Bytes())); got != t.Expect {
			add("tuple-order", raw, "composite (%s %s, %s %s): <%s,%s> vs <%s,%s> compares %d, component-wise order gives %d", t.K1, dir(t.D1), t.K2, dir(t.D2), t.A1, t.A2, t.B1, t.B2, got, t.Expect)
		}
	})
	js, _ := json.MarshalIndent(map[string]any{"pairs": npairs, "tuples": ntuples, "round_trips": nround, "mismatches": mm}, "", " ")
	os.WriteFile(*out, js, 0o644)
	fmt.Printf("pairs=%d tuples=%d roundtrips=%d mismatches=%d\n", npairs, ntuples, nround, len(mm))
}

func dir(d bool) string {
	if d {
		return "DESC"
	}
	return "ASC"
}

func unwrap(v client.NormalValue) any {
	if v == nil {
		return nil
	}
	return v.Unwrap()
}
