// Command queryrun executes TLC-generated query cases on real nodes (C08; with index sets: C07).
package main

import (
	"bufio"
	"context"
	"encoding/json"
	"flag"
	"fmt"
	"os"
	"strings"
	"time"

	"github.com/sourcenetwork/defradb/verif/queryrun"
)

func main() {
	cases := flag.String("cases", "", "ndjson cases from TLC")
	out := flag.String("out", "", "result json")
	indexes := flag.String("indexes", "none", "none | all (rotate through the index sets and compare with the unindexed node)")
	late := flag.Bool("late", false, "create indexes after the documents")
	churn := flag.Bool("churn", false, "reach the contents through a mutation history")
	max := flag.Int("max", 0, "max cases")
	budget := flag.Duration("budget", 0, "time budget")
	nopanic := flag.Bool("nopanic", false, "run the no-panic clause (mutated requests, root fields on signed data) instead of the semantics cases")
	seed := flag.Int64("seed", 1, "seed")
	skipops := flag.String("skipops", "", "mutation operators to skip (comma separated)")
	tt := flag.Int("timetravel", 0, "every k-th filtered list case also queries each document at its latest commit with the filter")
	progress := flag.String("progress", "", "file holding the request being executed")
	flag.Parse()
	f, err := os.Open(*cases)
	if err != nil {
		fmt.Fprintln(os.Stderr, err)
		os.Exit(2)
	}
	sc := bufio.NewScanner(f)
	sc.Buffer(make([]byte, 1<<20), 1<<26)
	var all []queryrun.Case
	for sc.Scan() {
		line := strings.TrimSpace(sc.Text())
		if line == "" {
			continue
		}
		var inner string
		if line[0] == '"' {
			if err := json.Unmarshal([]byte(line), &inner); err != nil {
				inner = strings.ReplaceAll(line[1:len(line)-1], `""`, `"`)
			}
		} else {
			inner = line
		}
		var c queryrun.Case
		if err := json.Unmarshal([]byte(inner), &c); err != nil {
			fmt.Fprintln(os.Stderr, "bad case:", err, inner[:min(200, len(inner))])
			os.Exit(2)
		}
		all = append(all, c)
		if *max > 0 && len(all) >= *max {
			break
		}
	}
	ctx := context.Background()
	if *nopanic {
		skip := map[string]bool{}
		for _, o := range strings.Split(*skipops, ",") {
			if o != "" {
				skip[o] = true
			}
		}
		res, err := queryrun.NoPanic(ctx, all, *seed, *max, skip, *progress)
		if err != nil {
			fmt.Fprintln(os.Stderr, "nopanic:", err)
			os.Exit(2)
		}
		js, _ := json.MarshalIndent(res, "", " ")
		os.WriteFile(*out, js, 0o644)
		fmt.Printf("requests=%d crashes=%d\n", res.Requests, len(res.Crashes))
		return
	}
	r := &queryrun.Runner{Ctx: ctx, LateIndex: *late, Churn: *churn, TimeTravel: *tt}
	start := time.Now()
	done := 0
	indexUsed := 0
	for i := range all {
		if *budget > 0 && time.Since(start) > *budget {
			break
		}
		c := &all[i]
		sets := []queryrun.IndexSet{queryrun.IndexSets[0]}
		if *indexes == "all" {
			sets = []queryrun.IndexSet{queryrun.IndexSets[1+i%(len(queryrun.IndexSets)-1)]}
			// every second case gets an index set whose leading field the query orders or filters by (if there is one)
			if rel := queryrun.RelevantSets(c.Q); i%2 == 1 && len(rel) > 0 {
				sets = []queryrun.IndexSet{rel[(i/2)%len(rel)]}
			}
		}
		for _, is := range sets {
			n, err := r.Populate(c, is)
			if err != nil {
				fmt.Fprintln(os.Stderr, "populate:", err)
				os.Exit(2)
			}
			if r.LateIndex && is.Name != "none" {
				if err := queryrun.CreateIndexesLate(ctx, n, is); err != nil {
					fmt.Fprintln(os.Stderr, "late index:", err)
					os.Exit(2)
				}
			}
			r.Check(i, c, n, is.Name)
			if is.Name != "none" && c.Q.Kind == "list" && queryrun.IndexUsed(ctx, n, queryrun.Render(c.Q)) {
				indexUsed++
			}
			n.Close()
		}
		done++
		if len(r.Mismatches) > 200 {
			break
		}
	}
	js, _ := json.MarshalIndent(map[string]any{"cases": len(all), "done": done, "executed": r.Executed, "errors": r.Errors, "by_kind": r.ByKind, "index_used": indexUsed, "time_travel_queries": r.TimeTravels,
		"mismatches": r.Mismatches, "wall_s": time.Since(start).Seconds()}, "", " ")
	os.WriteFile(*out, js, 0o644)
	fmt.Printf("cases=%d executed=%d mismatches=%d wall=%.1fs\n", done, r.Executed, len(r.Mismatches), time.Since(start).Seconds())
}
