// Command backuprun executes the cases of spec/Backup.tla: export from a real node, import into an empty one, compare
// the canonical (id-free) forms, export again and compare the files (C18).
package main

import (
	"bufio"
	"context"
	"encoding/json"
	"flag"
	"fmt"
	"os"
	"path/filepath"
	"sort"
	"strings"

	"github.com/sourcenetwork/defradb/client"
	"github.com/sourcenetwork/defradb/verif/cluster"
)

type caseT struct {
	Case struct {
		Schema    string            `json:"schema"`
		Authors   []string          `json:"authors"`
		Books     []string          `json:"books"`
		Persons   []string          `json:"persons"`
		Passports []string          `json:"passports"`
		Users     []string          `json:"users"`
		Link      json.RawMessage   `json:"link"`
		Docs      json.RawMessage   `json:"docs"`
		link      map[string]string `json:"-"`
	} `json:"case"`
	Canon struct {
		Docs  json.RawMessage `json:"docs"`
		Edges [][]string      `json:"edges"`
	} `json:"canon"`
}

var sdl = map[string]string{
	"S1": "type Flat {\n name: String\n i: Int\n f: Float\n b: Boolean\n s: String\n d: DateTime\n bl: Blob\n j: JSON\n ai: [Int!]\n as: [String]\n ni: [Int]\n}",
	"S2": "type Author {\n name: String\n age: Int\n books: [Book]\n}\ntype Book {\n name: String\n rating: Float\n author: Author\n}",
	"S3": "type Person {\n name: String\n passport: Passport\n}\ntype Passport {\n name: String\n owner: Person @primary\n}",
	"S4": "type User {\n name: String\n boss: User @primary @relation(name: \"boss_minion\")\n minion: User @relation(name: \"boss_minion\")\n}",
}

// edge-case value profiles of S1
var profiles = []map[string]any{
	{"i": int64(0), "f": 0.0, "b": false, "s": "", "d": "1970-01-01T00:00:00Z", "bl": "00", "j": map[string]any{}, "ai": []any{}, "as": []any{}, "ni": []any{}},
	{"i": int64(9007199254740993), "f": 0.1, "b": true, "s": "a", "d": "2001-02-03T04:05:06.000000007Z", "bl": "ff00ff", "j": map[string]any{"a": []any{int64(1), "x", nil, 1.5}, "b": map[string]any{"c": true}}, "ai": []any{int64(1), int64(-1)}, "as": []any{"x", nil, ""}, "ni": []any{int64(1), nil}},
	{"i": int64(-9007199254740993), "f": 1e300, "b": nil, "s": "quote \" backslash \\ newline \n tab \t unicode é世", "d": "2262-04-11T23:47:16.854775807Z", "bl": "deadbeef", "j": []any{int64(1), int64(2)}, "ai": nil, "as": nil, "ni": nil},
	{"i": int64(9223372036854775807), "f": -1e-300, "b": true, "s": nil, "d": nil, "bl": nil, "j": nil, "ai": []any{int64(9223372036854775807)}, "as": []any{nil}, "ni": []any{nil}},
	{"i": int64(-9223372036854775808), "f": 123456789.123456789, "b": false, "s": "null", "d": "1969-12-31T23:59:59.999999999Z", "bl": "", "j": "plain string", "ai": []any{int64(0)}, "as": []any{"null"}, "ni": []any{int64(0)}},
	{"i": nil, "f": nil, "b": nil, "s": nil, "d": nil, "bl": nil, "j": nil, "ai": nil, "as": nil, "ni": nil},
	{"i": int64(4294967296), "f": 2.5, "b": true, "s": "{\"json\": \"looking\"}", "d": "2024-02-29T12:00:00+02:00", "bl": "0a", "j": int64(42), "ai": []any{int64(-9223372036854775808), int64(4294967296)}, "as": []any{"a", "b"}, "ni": []any{int64(4294967296)}},
	{"i": int64(-1), "f": -0.5, "b": false, "s": " ", "d": "0001-01-01T00:00:00Z", "bl": "7f", "j": 1.25, "ai": []any{int64(-1)}, "as": []any{" "}, "ni": []any{int64(-1)}},
}

func must(err error, what string) {
	if err != nil {
		fmt.Fprintln(os.Stderr, what+":", err)
		os.Exit(2)
	}
}

func newNode(ctx context.Context, schema string) *cluster.Node {
	n, err := cluster.NewNode(ctx, "b", cluster.Options{})
	must(err, "node")
	_, err = n.DB.AddSchema(ctx, sdl[schema])
	must(err, "schema")
	return n
}

func createDoc(ctx context.Context, n *cluster.Node, colName string, m map[string]any) (string, error) {
	col, err := n.DB.GetCollectionByName(ctx, colName)
	if err != nil {
		return "", err
	}
	doc, err := client.NewDocFromMap(m, col.Definition())
	if err != nil {
		return "", err
	}
	if err := col.Create(ctx, doc); err != nil {
		return "", err
	}
	return doc.ID().String(), nil
}

var queries = map[string][]string{
	"S1": {`Flat(order: {name: ASC}) { name i f b s d bl j ai as ni }`},
	"S2": {`Author(order: {name: ASC}) { name age books(order: {name: ASC}) { name } }`, `Book(order: {name: ASC}) { name rating author { name } }`},
	"S3": {`Person(order: {name: ASC}) { name passport { name } }`, `Passport(order: {name: ASC}) { name owner { name } }`},
	"S4": {`User(order: {name: ASC}) { name boss { name } minion { name } }`},
}

func canon(ctx context.Context, n *cluster.Node, schema string) (string, error) {
	var parts []string
	for _, q := range queries[schema] {
		d, err := n.Exec(ctx, "query { "+q+" }")
		if err != nil {
			return "", err
		}
		b, _ := json.Marshal(d)
		parts = append(parts, string(b))
	}
	return strings.Join(parts, "\n"), nil
}

// edgesOf extracts the name-level relation edges from the node.
func edgesOf(ctx context.Context, n *cluster.Node, schema string) ([]string, []string, error) {
	var edges, docs []string
	add := func(col, rel string) error {
		d, err := n.Exec(ctx, fmt.Sprintf("query { %s { name %s { name } } }", col, rel))
		if err != nil {
			return err
		}
		for _, row := range cluster.Rows(d, col) {
			docs = append(docs, row["name"].(string))
			if t, ok := row[rel].(map[string]any); ok && t != nil {
				edges = append(edges, row["name"].(string)+"->"+t["name"].(string))
			}
		}
		return nil
	}
	var err error
	switch schema {
	case "S2":
		err = add("Book", "author")
		if err == nil {
			d, e2 := n.Exec(ctx, "query { Author { name } }")
			err = e2
			for _, row := range cluster.Rows(d, "Author") {
				docs = append(docs, row["name"].(string))
			}
		}
	case "S3":
		err = add("Passport", "owner")
		if err == nil {
			d, e2 := n.Exec(ctx, "query { Person { name } }")
			err = e2
			for _, row := range cluster.Rows(d, "Person") {
				docs = append(docs, row["name"].(string))
			}
		}
	case "S4":
		err = add("User", "boss")
	}
	sort.Strings(edges)
	sort.Strings(docs)
	return edges, docs, err
}

// fileCanon parses an export file and returns an id-free canonical form.
func fileCanon(path string) (string, error) {
	raw, err := os.ReadFile(path)
	if err != nil {
		return "", err
	}
	dec := json.NewDecoder(strings.NewReader(string(raw)))
	dec.UseNumber()
	var m map[string][]map[string]any
	if err := dec.Decode(&m); err != nil {
		return "", fmt.Errorf("export file is not valid JSON: %w", err)
	}
	id2name := map[string]string{}
	for _, docs := range m {
		for _, d := range docs {
			if id, ok := d["_docID"].(string); ok {
				id2name[id] = fmt.Sprint(d["name"])
			}
			if id, ok := d["_docIDNew"].(string); ok {
				id2name[id] = fmt.Sprint(d["name"])
			}
		}
	}
	var out []string
	for col, docs := range m {
		for _, d := range docs {
			c := map[string]any{}
			for k, v := range d {
				if k == "_docID" || k == "_docIDNew" {
					continue
				}
				if strings.HasSuffix(k, "_id") {
					if s, ok := v.(string); ok {
						v = "->" + id2name[s]
					}
				}
				c[k] = v
			}
			b, _ := json.Marshal(c)
			out = append(out, col+":"+string(b))
		}
	}
	sort.Strings(out)
	return strings.Join(out, "\n"), nil
}

func main() {
	in := flag.String("cases", "", "cases ndjson")
	outp := flag.String("out", "", "result")
	flag.Parse()
	ctx := context.Background()
	tmp, _ := os.MkdirTemp("", "backuprun")
	defer os.RemoveAll(tmp)
	f, err := os.Open(*in)
	must(err, "open")
	sc := bufio.NewScanner(f)
	sc.Buffer(make([]byte, 1<<20), 1<<24)
	var problems []map[string]any
	ncases, ndocs := 0, 0
	problem := func(kind string, c *caseT, f string, a ...any) {
		if len(problems) < 60 {
			problems = append(problems, map[string]any{"kind": kind, "msg": fmt.Sprintf(f, a...), "case": c.Case.Schema + " " + string(c.Case.Link) + string(c.Case.Docs)})
		}
	}
	idx := 0
	for sc.Scan() {
		if len(strings.TrimSpace(sc.Text())) == 0 {
			continue
		}
		var c caseT
		must(json.Unmarshal(sc.Bytes(), &c), "case")
		link := map[string]string{}
		json.Unmarshal(c.Case.Link, &link)
		ncases++
		idx++
		// a self-referencing document whose target itself references a document (chain or cycle of length >= 2)
		chain := ""
		if c.Case.Schema == "S4" {
			for u, t := range link {
				if t != "none" && t != u && link[t] != "none" && link[t] != "" {
					chain = ":self-reference-chain"
				}
			}
		}
		a := newNode(ctx, c.Case.Schema)
		ids := map[string]string{}
		mk := func(col, name string, m map[string]any) bool {
			m["name"] = name
			id, err := createDoc(ctx, a, col, m)
			if err != nil {
				problem("setup", &c, "creating %s %s: %v", col, name, err)
				return false
			}
			ids[name] = id
			ndocs++
			return true
		}
		ok := true
		switch c.Case.Schema {
		case "S1":
			var ps []int
			json.Unmarshal(c.Case.Docs, &ps)
			for i, p := range ps {
				m := map[string]any{}
				for k, v := range profiles[p] {
					m[k] = v
				}
				ok = ok && mk("Flat", fmt.Sprintf("doc%d", i+1), m)
			}
		case "S2":
			for i, n := range c.Case.Authors {
				ok = ok && mk("Author", n, map[string]any{"age": int64(30 + i)})
			}
			for i, n := range c.Case.Books {
				m := map[string]any{"rating": 4.5 + float64(i)}
				if t := link[n]; t != "" && t != "none" {
					m["author"] = ids[t]
				}
				ok = ok && mk("Book", n, m)
			}
		case "S3":
			for _, n := range c.Case.Persons {
				ok = ok && mk("Person", n, map[string]any{})
			}
			for _, n := range c.Case.Passports {
				m := map[string]any{}
				if t := link[n]; t != "" && t != "none" {
					m["owner"] = ids[t]
				}
				ok = ok && mk("Passport", n, m)
			}
		case "S4":
			for _, n := range c.Case.Users {
				ok = ok && mk("User", n, map[string]any{})
			}
			for _, n := range c.Case.Users {
				if t := link[n]; ok && t != "" && t != "none" {
					if _, err := a.Exec(ctx, fmt.Sprintf(`mutation { update_User(docID: %q, input: {boss: %q}) { _docID } }`, ids[n], ids[t])); err != nil {
						problem("setup", &c, "linking %s -> %s: %v", n, t, err)
						ok = false
					}
				}
			}
		}
		if !ok {
			a.Close()
			continue
		}
		// the source database really has the topology the specification describes
		edges, docs, err := edgesOf(ctx, a, c.Case.Schema)
		var wantEdges []string
		for _, e := range c.Canon.Edges {
			wantEdges = append(wantEdges, e[0]+"->"+e[1])
		}
		sort.Strings(wantEdges)
		if c.Case.Schema != "S1" && (err != nil || strings.Join(edges, ",") != strings.Join(wantEdges, ",")) {
			problem("setup-topology", &c, "source database has edges %v (err %v), the case describes %v", edges, err, wantEdges)
			a.Close()
			continue
		}
		_ = docs
		ca, err := canon(ctx, a, c.Case.Schema)
		if err != nil {
			problem("source-unreadable", &c, "%v", err)
			a.Close()
			continue
		}
		file1 := filepath.Join(tmp, fmt.Sprintf("exp-%d.json", idx))
		pretty := idx%2 == 0
		if err := a.DB.BasicExport(ctx, &client.BackupConfig{Filepath: file1, Pretty: pretty}); err != nil {
			problem("export-failed", &c, "%v", err)
			a.Close()
			continue
		}
		b := newNode(ctx, c.Case.Schema)
		if err := b.DB.BasicImport(ctx, file1); err != nil {
			problem("import-failed", &c, "importing the file just exported (pretty=%v): %v", pretty, err)
			a.Close()
			b.Close()
			continue
		}
		cb, err := canon(ctx, b, c.Case.Schema)
		if err != nil {
			problem("imported-unreadable", &c, "%v", err)
		} else if ca != cb {
			problem("not-reproduced"+chain, &c, "the imported database differs from the exported one (ids ignored):\n exported: %s\n imported: %s", trunc(ca), trunc(cb))
		}
		// export again: equivalent file
		file2 := filepath.Join(tmp, fmt.Sprintf("exp-%d-b.json", idx))
		if err := b.DB.BasicExport(ctx, &client.BackupConfig{Filepath: file2, Pretty: !pretty}); err != nil {
			problem("re-export-failed", &c, "%v", err)
		} else {
			f1, e1 := fileCanon(file1)
			f2, e2 := fileCanon(file2)
			if e1 != nil || e2 != nil {
				problem("export-file-invalid", &c, "%v %v", e1, e2)
			} else if f1 != f2 {
				problem("re-export-differs"+chain, &c, "exporting the imported database gives a different file (ids ignored):\n first: %s\n second: %s", trunc(f1), trunc(f2))
			}
		}
		a.Close()
		b.Close()
		os.Remove(file1)
		os.Remove(file2)
	}
	js, _ := json.MarshalIndent(map[string]any{"cases": ncases, "documents": ndocs, "problems": problems}, "", " ")
	os.WriteFile(*outp, js, 0o644)
	fmt.Printf("cases=%d docs=%d problems=%d\n", ncases, ndocs, len(problems))
}

func trunc(s string) string {
	if len(s) > 700 {
		return s[:700] + "..."
	}
	return s
}
