export GOFLAGS=-mod=mod GOPROXY=off
unset GOSUMDB GOTOOLCHAIN 2>/dev/null || true
export VERIF_ROOT="${VERIF_ROOT:-/verif}"
export VERIF_REPO="${VERIF_REPO:-/repo}"
