------------------------------ MODULE ReplConfig ------------------------------
(***************************************************************************)
(* Replicator configuration of one node across restarts (C14).             *)
(*                                                                         *)
(* Node A holds, per peer, the set of collections it replicates to that    *)
(* peer (net/p2p_replicator.go: SetReplicator / DeleteReplicator; the      *)
(* configuration is persisted and reloaded by loadAndPublishReplicators).  *)
(* A write to a collection is pushed to exactly the peers configured for   *)
(* that collection at that moment.  Restart is a stuttering step: what a   *)
(* peer receives afterwards is decided by the persisted configuration      *)
(* alone, exactly as if the node had never stopped.                        *)
(* got[p] is the set of documents peer p must hold; since a push carries   *)
(* the document's whole history, a later write of a document to a newly    *)
(* configured peer brings the document there.                              *)
(***************************************************************************)
EXTENDS Integers, Sequences, FiniteSets, TLC

CONSTANTS Peers, Cols, MaxDocs, MaxSteps

VARIABLES cfg,     \* cfg[p] : collections replicated to peer p
          docs,    \* documents written so far: set of [id, col]
          got,     \* got[p] : ids of the documents peer p must hold
          steps, hist
vars == <<cfg, docs, got, steps, hist>>
view == <<cfg, docs, got, steps>>

Init == cfg = [p \in Peers |-> {}] /\ docs = {} /\ got = [p \in Peers |-> {}] /\ steps = 0 /\ hist = <<>>

Obs == [cfg |-> cfg, got |-> got]
Log(e) == hist' = Append(hist, [e EXCEPT !.obs = Obs']) /\ steps' = steps + 1
E(op) == [op |-> op, p |-> "", cols |-> {}, col |-> "", id |-> 0, obs |-> <<>>]

\* SetReplicator(p, cs): cs is added to what p receives; everything already in those collections is pushed at once
SetRep(p, cs) == /\ cs # {} /\ ~(cs \subseteq cfg[p])
                 /\ cfg' = [cfg EXCEPT ![p] = @ \cup cs]
                 /\ got' = [got EXCEPT ![p] = @ \cup {d.id : d \in {x \in docs : x.col \in cs}}]
                 /\ UNCHANGED docs /\ Log([E("setrep") EXCEPT !.p = p, !.cols = cs])
DelRep(p, cs) == /\ cs # {} /\ cs \subseteq cfg[p]
                 /\ cfg' = [cfg EXCEPT ![p] = @ \ cs]
                 /\ UNCHANGED <<docs, got>> /\ Log([E("delrep") EXCEPT !.p = p, !.cols = cs])
\* a new document in collection c
Write(c) == /\ Cardinality(docs) < MaxDocs /\ UNCHANGED cfg
            /\ LET id == Cardinality(docs) + 1 IN
               /\ docs' = docs \cup {[id |-> id, col |-> c]}
               /\ got' = [p \in Peers |-> IF c \in cfg[p] THEN got[p] \cup {id} ELSE got[p]]
               /\ Log([E("write") EXCEPT !.col = c, !.id = id])
Restart == UNCHANGED <<cfg, docs, got>> /\ Log(E("restart"))

Next == /\ steps < MaxSteps
        /\ \/ \E p \in Peers, cs \in SUBSET Cols : SetRep(p, cs) \/ DelRep(p, cs)
           \/ \E c \in Cols : Write(c)
           \/ Restart
Spec == Init /\ [][Next]_vars

\* C14: a restart changes neither the configuration nor what any peer is owed
RestartInvisible == [][(hist' # hist /\ hist'[Len(hist')].op = "restart") => (cfg' = cfg /\ got' = got)]_vars
\* a peer never holds a document of a collection that was never configured for it
OnlyConfigured == \A p \in Peers : \A d \in docs : d.id \in got[p] => \E i \in 1..Len(hist) : hist[i].op = "setrep" /\ hist[i].p = p /\ d.col \in hist[i].cols
=============================================================================
