SPECIFICATION Spec
CONSTANTS
  Nodes = {1,2,3}
  MaxC = 6
  Ctrs = {"k"}
  Regs = {"r"}
  Vals = {0,1,2}
  Incs = {1,2}
  Variant = "repaired"
  NullTieFails = FALSE
  MaxDeliver = 0
VIEW view
ACTION_CONSTRAINT Export
CHECK_DEADLOCK FALSE
