SPECIFICATION Spec
CONSTANTS
  Nodes = {1,2,3}
  MaxC = 5
  Ctrs = {"k"}
  Regs = {}
  Vals = {}
  Incs = {1}
  Variant = "repaired"
  NullTieFails = FALSE
  MaxDeliver = 0
VIEW view
INVARIANTS TypeOK Converge MergeNeverFails RefCtr RefDel Closed HeightRule RefHeads RefFHeads ParentsOlder
PROPERTIES NoResurrection MrgGrows
CHECK_DEADLOCK FALSE
