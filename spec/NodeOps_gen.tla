------------------------------ MODULE NodeOps_gen ------------------------------
EXTENDS NodeOps, Json, CSV, IOUtils
Export == CSVWrite("%1$s", <<ToJson(hist')>>, IOEnv.VERIF_OUT)
ExportLeaves == (steps' = MaxSteps) => Export
\* Schema-only histories, enumerated exhaustively: one document, then nothing but patches and switches of the active
\* version (every shape of the version tree up to MaxVer versions and every walk of the active version over it)
SchemaNext == /\ steps < MaxSteps
              /\ IF steps = 0 THEN Create(1, 0)
                 ELSE (\E b \in BOOLEAN : Patch(b, FALSE)) \/ (\E k \in 1..MaxVer : SetActive(k))
SchemaSpec == Init /\ [][SchemaNext]_vars
=============================================================================
