---------------------------- MODULE UniqueIndex_gen ----------------------------
EXTENDS UniqueIndex, Json, CSV, IOUtils
Export == CSVWrite("%1$s", <<ToJson(hist')>>, IOEnv.VERIF_OUT)
ExportLeaves == (steps' = MaxSteps) => Export
=============================================================================
