---------------------------------- MODULE ACP ----------------------------------
(***************************************************************************)
(* Document access control (C10): a collection under a policy with         *)
(* relations owner / reader / updater / deleter,                           *)
(*    read   = owner + reader + updater + deleter                          *)
(*    update = owner + updater        delete = owner + deleter             *)
(* A document created with an identity is registered with that identity as *)
(* owner (private); one created anonymously is unregistered (public).      *)
(* Only the owner manages relationships.                                   *)
(*                                                                         *)
(* Non-interference is the shape of the oracle: every request kind is      *)
(* defined on Visible(actor) only, i.e. it returns what it would return if *)
(* the unreadable documents did not exist.  Update/delete attempts by an   *)
(* actor lacking the permission change nothing.                            *)
(***************************************************************************)
EXTENDS Integers, Sequences, FiniteSets, FiniteSetsExt, TLC

CONSTANTS Actors,     \* identities, e.g. {1,2,3}; 0 is the anonymous requester
          Docs,       \* document ids, e.g. {1,2,3}
          MaxVal,     \* field values 1..MaxVal
          MaxSteps

Anon == 0
Requesters == Actors \cup {Anon}
Rels == {"reader", "updater", "deleter"}

VARIABLES doc,     \* doc[d] = [st |-> "absent"|"live"|"deleted", v, owner (0 = unregistered/public)]
          rel,     \* rel[d][r] = set of actors holding relation r on d
          steps, hist
vars == <<doc, rel, steps, hist>>
view == <<doc, rel, steps>>

Init == /\ doc = [d \in Docs |-> [st |-> "absent", v |-> 0, owner |-> 0]]
        /\ rel = [d \in Docs |-> [r \in Rels |-> {}]]
        /\ steps = 0 /\ hist = <<>>

Exists(d) == doc[d].st # "absent"
Public(d) == doc[d].owner = 0
CanRead(a, d)   == Exists(d) /\ (Public(d) \/ (a # Anon /\ (a = doc[d].owner \/ a \in rel[d]["reader"] \cup rel[d]["updater"] \cup rel[d]["deleter"])))
CanUpdate(a, d) == Exists(d) /\ (Public(d) \/ (a # Anon /\ (a = doc[d].owner \/ a \in rel[d]["updater"])))
CanDelete(a, d) == Exists(d) /\ (Public(d) \/ (a # Anon /\ (a = doc[d].owner \/ a \in rel[d]["deleter"])))
Visible(a) == {d \in Docs : doc[d].st = "live" /\ CanRead(a, d)}
VisibleWithDeleted(a) == {d \in Docs : Exists(d) /\ CanRead(a, d)}

RECURSIVE SumV(_)
SumV(S) == IF S = {} THEN 0 ELSE LET d == CHOOSE x \in S : TRUE IN doc[d].v + SumV(S \ {d})
\* the observation of requester a: what every request kind must return
ObsOf(a) == LET V == Visible(a) IN
  [ids |-> V,
   rows |-> {<<d, doc[d].v>> : d \in V},
   ge2 |-> {d \in V : doc[d].v >= 2},
   count |-> Cardinality(V),
   sum |-> SumV(V),
   max |-> IF V = {} THEN -1 ELSE Max({doc[d].v : d \in V}),
   groups |-> {<<v, Cardinality({d \in V : doc[d].v = v})>> : v \in {doc[d].v : d \in V}},
   withDeleted |-> VisibleWithDeleted(a),
   readable |-> {d \in Docs : CanRead(a, d)}]
AllObs == [a \in Requesters |-> ObsOf(a)]

\* The subscription route: every requester keeps a GraphQL subscription on the collection open. A committed create or
\* update of document d is reported to requester a - one result showing d with its new value - exactly if a may read d
\* after the step. A NEW relationship makes the node announce the document again (db.AddDACActorRelationship publishes an
\* update notification for its heads, so that peers of the new actor fetch it): every requester that may read the live
\* document after the grant receives it once more. Refused attempts, deletes, repeated grants and revokes are reported
\* to nobody; nobody ever receives a document it may not read.
CanReadAfter(a, d) == doc'[d].st # "absent" /\ (doc'[d].owner = 0 \/ (a # Anon /\ (a = doc'[d].owner \/ a \in rel'[d]["reader"] \cup rel'[d]["updater"] \cup rel'[d]["deleter"])))
Announced(e) == \/ e.op \in {"create", "update"} /\ e.res = "ok"
                \/ e.op = "grant" /\ e.res = "ok" /\ e.b \notin rel[e.d][e.r] /\ doc'[e.d].st = "live"
SubOf(e) == [a \in Requesters |-> IF Announced(e) /\ CanReadAfter(a, e.d) THEN <<e.d, doc'[e.d].v>> ELSE <<>>]
Log(e) == /\ hist' = Append(hist, [e EXCEPT !.obs = AllObs', !.sub = SubOf(e)])
          /\ steps' = steps + 1
Ev(op, a, d) == [op |-> op, a |-> a, d |-> d, v |-> 0, r |-> "", b |-> 0, res |-> "", obs |-> <<>>, sub |-> <<>>]
\* API routes of a mutation: by document id (request / collection API) or through a filter (UpdateWithFilter /
\* DeleteWithFilter, filtered mutations); the permission rule is the same on every route
Routes == {"docid", "filter", "save"}

Create(a, d, v) ==
  /\ doc[d].st = "absent"
  /\ doc' = [doc EXCEPT ![d] = [st |-> "live", v |-> v, owner |-> a]]
  /\ UNCHANGED rel /\ Log([Ev("create", a, d) EXCEPT !.v = v, !.res = "ok"])
\* an update attempt: takes effect iff the requester may update (and read) a live document
Update(a, d, v, route) ==
  /\ Exists(d)
  /\ LET ok == doc[d].st = "live" /\ CanUpdate(a, d) /\ CanRead(a, d) IN
     /\ doc' = IF ok THEN [doc EXCEPT ![d].v = v] ELSE doc
     /\ UNCHANGED rel /\ Log([Ev("update", a, d) EXCEPT !.v = v, !.r = route, !.res = IF ok THEN "ok" ELSE "refused"])
Delete(a, d, route) ==
  /\ Exists(d)
  /\ LET ok == doc[d].st = "live" /\ CanDelete(a, d) /\ CanRead(a, d) IN
     /\ doc' = IF ok THEN [doc EXCEPT ![d].st = "deleted"] ELSE doc
     /\ UNCHANGED rel /\ Log([Ev("delete", a, d) EXCEPT !.r = route, !.res = IF ok THEN "ok" ELSE "refused"])
\* a schema patch (adding a field) and a restart change nothing about who may see or do what
Patch == /\ UNCHANGED <<doc, rel>> /\ Log([Ev("patch", 0, 0) EXCEPT !.res = "ok"])
\* relationship management: only the owner of a registered document succeeds
Grant(a, d, r, b) ==
  /\ Exists(d) /\ a # Anon /\ b # a
  /\ LET ok == ~Public(d) /\ a = doc[d].owner IN
     /\ rel' = IF ok THEN [rel EXCEPT ![d][r] = @ \cup {b}] ELSE rel
     /\ UNCHANGED doc /\ Log([Ev("grant", a, d) EXCEPT !.r = r, !.b = b, !.res = IF ok THEN "ok" ELSE "refused"])
Revoke(a, d, r, b) ==
  /\ Exists(d) /\ a # Anon /\ b \in rel[d][r]
  /\ LET ok == ~Public(d) /\ a = doc[d].owner IN
     /\ rel' = IF ok THEN [rel EXCEPT ![d][r] = @ \ {b}] ELSE rel
     /\ UNCHANGED doc /\ Log([Ev("revoke", a, d) EXCEPT !.r = r, !.b = b, !.res = IF ok THEN "ok" ELSE "refused"])

Next == /\ steps < MaxSteps
        /\ \/ \E a \in Requesters, d \in Docs, v \in 1..MaxVal : Create(a, d, v) \/ (\E rt \in Routes : Update(a, d, v, rt))
           \/ \E a \in Requesters, d \in Docs, rt \in {"docid", "filter"} : Delete(a, d, rt)
           \/ Patch
           \/ \E a \in Actors, d \in Docs, r \in Rels, b \in Actors : Grant(a, d, r, b) \/ Revoke(a, d, r, b)
Spec == Init /\ [][Next]_vars

(* design-level properties *)
OwnerReads == \A d \in Docs : Exists(d) /\ ~Public(d) => CanRead(doc[d].owner, d)
AnonSeesOnlyPublic == \A d \in Visible(Anon) : Public(d)
UpdateImpliesRead == \A a \in Requesters, d \in Docs : CanUpdate(a, d) => CanRead(a, d)
\* non-interference: what a requester observes depends only on the documents it may read
NonInterference == \A a \in Requesters : ObsOf(a).ids \subseteq {d \in Docs : CanRead(a, d)}
\* the subscription route tells a requester nothing about a document it may not read
SubNonInterference == \A i \in 1..Len(hist) : \A a \in Requesters : hist[i].sub[a] # <<>> => hist[i].d \in hist[i].obs[a].readable
\* a refused attempt changes nothing (action property)
RefusedChangesNothing == [][(hist' # hist /\ hist'[Len(hist')].res = "refused") => (doc' = doc /\ rel' = rel)]_vars
=============================================================================
