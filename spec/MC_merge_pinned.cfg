SPECIFICATION Spec
CONSTANTS
  Nodes = {1,2,3}
  MaxC = 4
  Ctrs = {"k"}
  Regs = {"r"}
  Vals = {0,1}
  Incs = {1}
  Variant = "pinned"
  NullTieFails = FALSE
  MaxDeliver = 0
VIEW view
INVARIANTS RefCtr
CHECK_DEADLOCK FALSE
