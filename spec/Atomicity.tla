------------------------------- MODULE Atomicity -------------------------------
(***************************************************************************)
(* One mutating API call under storage faults (C05), structured like        *)
(* ensureContextTxn / deferred Discard / Commit-last / OnSuccess callbacks  *)
(* (internal/db/txn.go, internal/datastore/txn.go):                         *)
(*   the call issues N storage operations inside one KV transaction; writes *)
(*   are buffered in the transaction; update notifications are registered   *)
(*   as success callbacks; the last operation is the KV commit; any failing *)
(*   operation makes the call return an error and discard the transaction.  *)
(* The logical database is abstracted to pre / post / partial.  CONSTANTS   *)
(* WriteThrough and PublishEarly name the two ways a code change can break  *)
(* the design (a write that bypasses the transaction; a notification sent   *)
(* before the commit); with both FALSE TLC proves AllOrNothing and          *)
(* EventIffCommitted for every fault position, with either TRUE it refutes  *)
(* them.  The same actions validate recorded runs (trace/Trace_Atomicity).  *)
(***************************************************************************)
EXTENDS Integers, Sequences, TLC

CONSTANTS MaxN,           \* max number of storage operations of a call (the last one is the commit)
          MaxEv,          \* max number of notifications a call registers
          WriteThrough, PublishEarly

VARIABLES n,        \* storage operations of this call (the n-th is the commit)
          ev,       \* notifications the fault-free call publishes
          failAt,   \* 0: no fault, k: the k-th operation fails
          pc,       \* next operation to issue; n+1 = returned
          store,    \* "pre" | "post" | "partial"   (committed logical state)
          buffered, \* number of writes buffered in the open transaction
          published,\* notifications handed to the bus so far
          result    \* "none" | "ok" | "error"
vars == <<n, ev, failAt, pc, store, buffered, published, result>>

Init == /\ n \in 1..MaxN /\ ev \in 0..MaxEv /\ failAt \in 0..MaxN /\ failAt <= n
        /\ pc = 1 /\ store = "pre" /\ buffered = 0 /\ published = 0 /\ result = "none"

\* a storage operation before the commit
Op == /\ result = "none" /\ pc < n
      /\ IF pc = failAt
         THEN /\ result' = "error" /\ buffered' = 0             \* deferred Discard
              /\ UNCHANGED <<store, published>>
         ELSE /\ buffered' = buffered + 1
              /\ store' = IF WriteThrough /\ pc = 1 THEN "partial" ELSE store
              /\ published' = IF PublishEarly /\ pc = 1 THEN ev ELSE published
              /\ UNCHANGED result
      /\ pc' = pc + 1 /\ UNCHANGED <<n, ev, failAt>>
\* a failing READ on a helper path may be swallowed by the code (e.g. an existence probe treated as "not there"
\* by a caller that then takes the general path); the call goes on and must still end all-or-nothing
OpSwallow == /\ result = "none" /\ pc < n /\ pc = failAt
             /\ buffered' = buffered /\ pc' = pc + 1
             /\ UNCHANGED <<n, ev, failAt, store, published, result>>
\* the commit, then the success callbacks
CommitOp == /\ result = "none" /\ pc = n
            /\ IF pc = failAt
               THEN /\ result' = "error" /\ buffered' = 0 /\ UNCHANGED <<store, published>>
               ELSE /\ result' = "ok" /\ store' = "post" /\ buffered' = 0 /\ published' = ev
            /\ pc' = pc + 1 /\ UNCHANGED <<n, ev, failAt>>
Next == Op \/ OpSwallow \/ CommitOp
Spec == Init /\ [][Next]_vars

Returned == result # "none"
AllOrNothing == Returned => \/ result = "error" /\ store = "pre"
                            \/ result = "ok" /\ store = "post"
EventIffCommitted == Returned => published = (IF result = "ok" THEN ev ELSE 0)
NoEarlyEvent == ~Returned => published = 0

\* what a recorded run may look like: (operations counted fault-free, fault position, result, state class, notifications)
Allowed(N, k, res, cls, nev, expectEv) ==
  \/ res = "error" /\ cls = "pre" /\ nev = 0
  \/ res = "ok" /\ cls = "post" /\ nev = expectEv
=============================================================================
