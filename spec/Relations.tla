------------------------------- MODULE Relations -------------------------------
(***************************************************************************)
(* Relations read the same from both sides (C09).                          *)
(*                                                                         *)
(* One-to-many: Author <- Book.author ; one-to-one: Person <- Passport.owner*)
(* (the child / passport holds the foreign key).  The only state is the    *)
(* foreign key of every child; everything a query can show is derived:     *)
(*    Children(p) = {c : fk[c] = p}                                        *)
(* so a document appears among the related documents of p exactly when its *)
(* own relation field points to p, whichever side the query starts from    *)
(* and whatever indexes exist.  A one-to-one link may be held by at most   *)
(* one document: a local write that would give it a second holder is       *)
(* refused.                                                                *)
(***************************************************************************)
EXTENDS Integers, Sequences, FiniteSets, FiniteSetsExt, TLC

CONSTANTS Parents, Children, MaxRating, MaxSteps, OneToOne

None == "none"
VARIABLES pst, cst,     \* existence of parents / children: "absent" | "live" | "deleted"
          fk,           \* fk[c] \in Parents \cup {None}
          rating,       \* rating[c] : 0..MaxRating (a scalar on the child used by filters / aggregates)
          steps, hist
vars == <<pst, cst, fk, rating, steps, hist>>
view == <<pst, cst, fk, rating, steps>>

Init == /\ pst = [p \in Parents |-> "absent"] /\ cst = [c \in Children |-> "absent"]
        /\ fk = [c \in Children |-> None] /\ rating = [c \in Children |-> 0] /\ steps = 0 /\ hist = <<>>

LiveP == {p \in Parents : pst[p] = "live"}
LiveC == {c \in Children : cst[c] = "live"}
\* the relation as seen by queries: live children pointing to a live parent
Kids(p) == {c \in LiveC : fk[c] = p}
ParentOf(c) == IF fk[c] # None /\ fk[c] \in LiveP THEN fk[c] ELSE None
RECURSIVE SumR(_)
SumR(S) == IF S = {} THEN 0 ELSE LET c == CHOOSE x \in S : TRUE IN rating[c] + SumR(S \ {c})
Obs == [parents |-> LiveP, children |-> LiveC,
        kids |-> [p \in LiveP |-> Kids(p)],
        parentOf |-> [c \in LiveC |-> ParentOf(c)],
        rating |-> [c \in LiveC |-> rating[c]],
        \* parents having at least one child with rating >= 2 ; children whose parent is p, for every p
        parentsWithGoodKid |-> {p \in LiveP : \E c \in Kids(p) : rating[c] >= 2},
        kidCount |-> [p \in LiveP |-> Cardinality(Kids(p))],
        kidSum |-> [p \in LiveP |-> SumR(Kids(p))],
        orphans |-> {c \in LiveC : ParentOf(c) = None}]
Log(e) == /\ hist' = Append(hist, [e EXCEPT !.obs = Obs']) /\ steps' = steps + 1
E(op) == [op |-> op, p |-> None, c |-> None, r |-> 0, res |-> "ok", obs |-> <<>>]

CreateP(p) == /\ pst[p] = "absent" /\ pst' = [pst EXCEPT ![p] = "live"]
              /\ UNCHANGED <<cst, fk, rating>> /\ Log([E("createP") EXCEPT !.p = p])
\* holders of a one-to-one link
Holders(p, except) == {c \in LiveC \ {except} : fk[c] = p}
LinkAllowed(c, p) == p = None \/ ~OneToOne \/ Holders(p, c) = {}
CreateC(c, p, r) == /\ cst[c] = "absent" /\ (p = None \/ p \in LiveP)
                    /\ IF LinkAllowed(c, p)
                       THEN /\ cst' = [cst EXCEPT ![c] = "live"] /\ fk' = [fk EXCEPT ![c] = p] /\ rating' = [rating EXCEPT ![c] = r]
                            /\ UNCHANGED pst /\ Log([E("createC") EXCEPT !.c = c, !.p = p, !.r = r])
                       ELSE /\ UNCHANGED <<pst, cst, fk, rating>> /\ Log([E("createC") EXCEPT !.c = c, !.p = p, !.r = r, !.res = "refused"])
Link(c, p) == /\ cst[c] = "live" /\ (p = None \/ p \in LiveP) /\ fk[c] # p
              /\ IF LinkAllowed(c, p)
                 THEN /\ fk' = [fk EXCEPT ![c] = p] /\ UNCHANGED <<pst, cst, rating>> /\ Log([E("link") EXCEPT !.c = c, !.p = p])
                 ELSE /\ UNCHANGED <<pst, cst, fk, rating>> /\ Log([E("link") EXCEPT !.c = c, !.p = p, !.res = "refused"])
Rate(c, r) == /\ cst[c] = "live" /\ rating[c] # r /\ rating' = [rating EXCEPT ![c] = r]
              /\ UNCHANGED <<pst, cst, fk>> /\ Log([E("rate") EXCEPT !.c = c, !.r = r])
DeleteC(c) == /\ cst[c] = "live" /\ cst' = [cst EXCEPT ![c] = "deleted"]
              /\ UNCHANGED <<pst, fk, rating>> /\ Log([E("deleteC") EXCEPT !.c = c])
DeleteP(p) == /\ pst[p] = "live" /\ pst' = [pst EXCEPT ![p] = "deleted"]
              /\ UNCHANGED <<cst, fk, rating>> /\ Log([E("deleteP") EXCEPT !.p = p])

Next == /\ steps < MaxSteps
        /\ \/ \E p \in Parents : CreateP(p) \/ DeleteP(p)
           \/ \E c \in Children, p \in Parents \cup {None}, r \in 0..MaxRating : CreateC(c, p, r)
           \/ \E c \in Children, p \in Parents \cup {None} : Link(c, p)
           \/ \E c \in Children, r \in 0..MaxRating : Rate(c, r)
           \/ \E c \in Children : DeleteC(c)
Spec == Init /\ [][Next]_vars

\* both sides agree (by construction of the oracle; kept as the stated property)
BothSidesAgree == \A p \in LiveP, c \in LiveC : (c \in Kids(p)) <=> (ParentOf(c) = p)
OneHolder == OneToOne => \A p \in Parents : Cardinality({c \in LiveC : fk[c] = p}) <= 1
=============================================================================
