SPECIFICATION LSpec
CONSTANTS Ids = {1,2,3} SDom <- SDomSmall IDom <- IDomSmall Cmp <- CmpBroken
INVARIANTS Boolean Comparisons Membership Arrays Ordering Paging Aggregates
CHECK_DEADLOCK FALSE
