------------------------------ MODULE Trace_KVTxn ------------------------------
(***************************************************************************)
(* Trace validation for KVTxn: a recorded history of API calls on a real   *)
(* node (one ndjson line per returned call: operation, arguments, result,  *)
(* rows returned, notifications received by each subscriber since the      *)
(* previous line) is accepted iff it is a behaviour of KVTxn.  Several     *)
(* traces are concatenated; a line with op = "reset" starts a fresh node.  *)
(* A line that cannot be matched deadlocks the trace specification: TLC    *)
(* reports the state, whose variable l is the index of the rejected line.  *)
(***************************************************************************)
EXTENDS KVTxn, Json, IOUtils, SequencesExt

CONSTANTS CheckEvents     \* FALSE: ignore the logged notifications (to separate C06/C05 from C20)

Trace == ndJsonDeserialize(IOEnv.VERIF_TRACE)

VARIABLES l
tvars == <<vars, l>>

Cur == Trace[l]
Is(op) == l <= Len(Trace) /\ Cur.op = op
Step == l' = l + 1
RowSet(x) == {<<r[1], r[2]>> : r \in ToSet(x)}
\* notifications published by this step = what every subscriber received since the previous line
NewEvents == SubSeq(published', Len(published) + 1, Len(published'))
EvOf(e) == [d |-> e[1], k |-> e[2]]
\* Cur.evs is a record: subscriber id |-> notifications it received since the previous line. Exactly the
\* subscribers subscribed during the call report, and each of them received exactly the new notifications.
EventsOK ==
  CheckEvents =>
    /\ DOMAIN Cur.evs = subs
    /\ \A s \in subs :
         LET got == Cur.evs[s] IN
         /\ Len(got) = Len(NewEvents)
         /\ \A j \in 1..Len(got) : EvOf(got[j]) = [d |-> NewEvents[j].d, k |-> NewEvents[j].k]

TReset == /\ Is("reset") /\ Step
          /\ db' = [d \in Docs |-> Absent] /\ cver' = 0 /\ lastw' = [d \in Docs |-> 0]
          /\ tx' = [t \in Txns |-> TxInit] /\ published' = <<>> /\ subs' = {} /\ nops' = 0 /\ chist' = <<>> /\ hist' = <<>>

TSub     == Is("sub")   /\ Step /\ Subscribe(Cur.s)
TUnsub   == Is("unsub") /\ Step /\ Unsubscribe(Cur.s)
TTouchE  == Is("touch") /\ Cur.t # 0 /\ Step /\ TTouch(Cur.t, Cur.d, Cur.res) /\ EventsOK
TTouchI  == Is("touch") /\ Cur.t = 0 /\ Step /\ ITouch(Cur.d, Cur.res, Cur.res = "fault") /\ EventsOK
TBegin   == Is("begin")   /\ Step /\ Begin(Cur.t) /\ EventsOK
TDiscard == Is("discard") /\ Step /\ Discard(Cur.t) /\ EventsOK
TCommit  == Is("commit")  /\ Step /\ Commit(Cur.t, Cur.res) /\ EventsOK
TCreateE == Is("create") /\ Cur.t # 0 /\ Step /\ TCreate(Cur.t, Cur.d, Cur.res) /\ EventsOK
TUpdateE == Is("update") /\ Cur.t # 0 /\ Step /\ TUpdate(Cur.t, Cur.d, Cur.v, Cur.res) /\ EventsOK
TDeleteE == Is("delete") /\ Cur.t # 0 /\ Step /\ TDelete(Cur.t, Cur.d, Cur.res) /\ EventsOK
TQueryE  == Is("query")  /\ Cur.t # 0 /\ Step /\ TQuery(Cur.t, RowSet(Cur.rows)) /\ EventsOK
TCreateI == Is("create") /\ Cur.t = 0 /\ Step /\ ICreate(Cur.d, Cur.res, Cur.res = "fault") /\ EventsOK
TUpdateI == Is("update") /\ Cur.t = 0 /\ Step /\ IUpdate(Cur.d, Cur.v, Cur.res, Cur.res = "fault") /\ EventsOK
TDeleteI == Is("delete") /\ Cur.t = 0 /\ Step /\ IDelete(Cur.d, Cur.res, Cur.res = "fault") /\ EventsOK
TIdsE    == Is("ids") /\ Cur.t # 0 /\ Step /\ TIds(Cur.t, ToSet(Cur.names)) /\ EventsOK
TIdsI    == Is("ids") /\ Cur.t = 0 /\ Step /\ IIds(ToSet(Cur.names)) /\ EventsOK
TGetE    == Is("get") /\ Cur.t # 0 /\ Step /\ TGet(Cur.t, Cur.d, Cur.val) /\ EventsOK
TGetI    == Is("get") /\ Cur.t = 0 /\ Step /\ IGet(Cur.d, Cur.val) /\ EventsOK
TQueryI  == Is("query")  /\ Cur.t = 0 /\ Step /\ IQuery(RowSet(Cur.rows)) /\ EventsOK
\* last line of a trace that ran with a GraphQL subscription (filter v >= Cur.v) and a consumer that read only now:
\* the results it received, in order, as <<name, v>>
TGql     == /\ Is("gql") /\ Step /\ UNCHANGED vars
            /\ CheckEvents => [j \in 1..Len(Cur.rows) |-> <<Cur.rows[j][1], Cur.rows[j][2]>>] = GqlResults(published, Cur.v)
TDone    == l > Len(Trace) /\ UNCHANGED tvars

TraceInit == Init /\ l = 1
TraceNext == TReset \/ TBegin \/ TDiscard \/ TCommit \/ TCreateE \/ TUpdateE \/ TDeleteE \/ TQueryE
             \/ TCreateI \/ TUpdateI \/ TDeleteI \/ TQueryI \/ TIdsE \/ TIdsI \/ TGetE \/ TGetI \/ TSub \/ TUnsub \/ TTouchE \/ TTouchI \/ TGql \/ TDone
TraceSpec == TraceInit /\ [][TraceNext]_tvars
\* bounds of the generator do not apply to recorded traces
TraceView == <<db, cver, lastw, tx, published, subs, l>>
=============================================================================
