---------------------------- MODULE Trace_Atomicity ----------------------------
(* Validation of recorded fault-injection runs (C05): one ndjson line per run of an API call with the   *)
(* k-th storage operation failing: {op, prior, n, k, res, cls, nev, expect_ev, retry}.  A line is        *)
(* accepted iff the run is a complete behaviour of Atomicity with failAt = k whose outcome is the one    *)
(* logged: an error with the database exactly as before and no notification, or success with the        *)
(* complete effect and exactly the notifications of the fault-free run; after an error the same call,    *)
(* repeated without a fault, must succeed completely (retry = "post").                                   *)
EXTENDS Atomicity, Json, IOUtils

Trace == ndJsonDeserialize(IOEnv.VERIF_TRACE)
VARIABLE l
tvars == <<vars, l>>
Cur == Trace[l]

\* between runs pc = 0.  Start the run described by line l:
TStart == /\ pc = 0 /\ l <= Len(Trace)
          /\ n' = Cur.n /\ ev' = Cur.expect_ev /\ failAt' = Cur.k
          /\ pc' = 1 /\ store' = "pre" /\ buffered' = 0 /\ published' = 0 /\ result' = "none"
          /\ UNCHANGED l
\* the recorder knows whether the injected fault was swallowed (the call went on and succeeded), so the run is
\* deterministic: a line that cannot be matched deadlocks the trace specification
TRun == /\ pc > 0 /\ ~Returned /\ UNCHANGED l
        /\ IF pc = failAt /\ pc < n
           THEN (IF Cur.res = "ok" THEN OpSwallow ELSE Op)
           ELSE Next
\* the modelled call returned: its outcome must be the recorded one
TFinish == /\ pc > 0 /\ Returned
           /\ Cur.res = result /\ Cur.cls = store /\ Cur.nev = published
           /\ (result = "error" => Cur.retry = "post")
           /\ l' = l + 1 /\ pc' = 0 /\ UNCHANGED <<n, ev, failAt, store, buffered, published, result>>
TDone == pc = 0 /\ l > Len(Trace) /\ UNCHANGED tvars
TraceInit == /\ l = 1 /\ n = 1 /\ ev = 0 /\ failAt = 0 /\ pc = 0 /\ store = "pre" /\ buffered = 0 /\ published = 0 /\ result = "none"
TraceNext == TStart \/ TRun \/ TFinish \/ TDone
TraceSpec == TraceInit /\ [][TraceNext]_tvars
=============================================================================
