---------------------------- MODULE Trace_Concurrent ----------------------------
(***************************************************************************)
(* Linearizability of a recorded concurrent history of one node (C16).     *)
(*                                                                         *)
(* Sequential specification: a node is a set of existing keys and, per     *)
(* document, a counter.  Calls are atomic: an increment that reports       *)
(* success adds its amount exactly once, one that reports a conflict or an *)
(* error adds nothing; a create that reports success makes the key exist;  *)
(* a read returns the counter value at its linearization point; a merge of *)
(* a remote increment that completes adds its amount exactly once.         *)
(*                                                                         *)
(* The recorded history has one line per invocation and per return, in the *)
(* order of a global atomic sequence number taken by the recording         *)
(* goroutines.  TLC searches for linearization points: every call takes    *)
(* effect at a silent step Lin between its invocation and its return.      *)
(* The history is accepted iff some branch consumes every line; then the   *)
(* invariant NotAccepted is violated (that is the success signal).         *)
(***************************************************************************)
EXTENDS Integers, Sequences, FiniteSets, TLC, Json, IOUtils

Trace == ndJsonDeserialize(IOEnv.VERIF_TRACE)
\* the return record of every call id
RetIdx == [i \in {Trace[j].id : j \in 1..Len(Trace)} |-> CHOOSE j \in 1..Len(Trace) : Trace[j].ev = "ret" /\ Trace[j].id = i]
Ret(i) == Trace[RetIdx[i]]

VARIABLES ctr,     \* ctr[d] : counter of document d (function over the documents seen)
          keys,    \* set of created keys
          pend,    \* invoked, not yet linearized
          lind,    \* linearized, not yet returned
          l
vars == <<ctr, keys, pend, lind, l>>

Docs == {Trace[j].d : j \in 1..Len(Trace)}
Init == ctr = [d \in Docs |-> 0] /\ keys = {} /\ pend = {} /\ lind = {} /\ l = 1

Cur == Trace[l]
Inv == /\ l <= Len(Trace) /\ Cur.ev = "inv" /\ pend' = pend \cup {Cur.id} /\ l' = l + 1 /\ UNCHANGED <<ctr, keys, lind>>
\* the silent linearization step of a pending call, judged with the result the call returned
Lin(i) == /\ i \in pend
          /\ LET r == Ret(i) IN
             /\ CASE r.op \in {"inc", "merge"} ->
                       (ctr' = (IF r.res = "ok" THEN [ctr EXCEPT ![r.d] = @ + r.k] ELSE ctr)) /\ (keys' = keys)
                  [] r.op = "create" ->
                       (r.res = "ok" => r.d \notin keys) /\ (keys' = (IF r.res = "ok" THEN keys \cup {r.d} ELSE keys)) /\ (ctr' = ctr)
                  [] r.op = "read" ->
                       (r.res = "ok" => r.val = ctr[r.d]) /\ (ctr' = ctr) /\ (keys' = keys)
                  [] r.op = "exists" ->
                       (r.res = "ok" => ((r.val = 1) = (r.d \in keys))) /\ (ctr' = ctr) /\ (keys' = keys)
                  [] OTHER -> (ctr' = ctr) /\ (keys' = keys)
          /\ pend' = pend \ {i} /\ lind' = lind \cup {i} /\ UNCHANGED l
RetStep == /\ l <= Len(Trace) /\ Cur.ev = "ret" /\ Cur.id \in lind
           /\ lind' = lind \ {Cur.id} /\ l' = l + 1 /\ UNCHANGED <<ctr, keys, pend>>
Next == Inv \/ RetStep \/ \E i \in pend : Lin(i)
Spec == Init /\ [][Next]_vars
\* success signal: some branch consumed the whole history
NotAccepted == l <= Len(Trace)
\* progress of the best branch (diagnostics): -workers 1
Progress == TLCSet(1, IF TLCGet(1) > l THEN TLCGet(1) ELSE l)
=============================================================================
