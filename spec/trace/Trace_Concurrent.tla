---------------------------- MODULE Trace_Concurrent ----------------------------
(***************************************************************************)
(* Linearizability of a recorded concurrent history of one node (C16).     *)
(*                                                                         *)
(* Sequential specification: a node is a set of existing keys and, per     *)
(* document, a counter.  Calls are atomic: an increment that reports       *)
(* success adds its amount exactly once, one that reports a conflict or an *)
(* error adds nothing; a create that reports success makes the key exist;  *)
(* a read returns the counter value at its linearization point; a merge of *)
(* a remote increment that completes adds its amount exactly once.         *)
(*                                                                         *)
(* The recorded history has one line per invocation and per return, in the *)
(* order of a global atomic sequence number taken by the recording         *)
(* goroutines.  TLC searches for linearization points: every call takes    *)
(* effect at a silent step Lin between its invocation and its return.      *)
(* The history is accepted iff some branch consumes every line; then the   *)
(* invariant NotAccepted is violated (that is the success signal).         *)
(* Lines "mb"/"me" mark the critical section of an incoming merge.         *)
(***************************************************************************)
EXTENDS Integers, Sequences, FiniteSets, TLC, Json, IOUtils

\* "lin": search for linearization points, the merge marks are stepped over;
\* "mutex": only the merge marks are checked (a deterministic pass: no search, so a rejection is immediate)
CONSTANT Mode

Trace == ndJsonDeserialize(IOEnv.VERIF_TRACE)
\* the return record of every call id
RetIdx == [i \in {Trace[j].id : j \in {x \in 1..Len(Trace) : Trace[x].ev = "inv"}} |-> CHOOSE j \in 1..Len(Trace) : Trace[j].ev = "ret" /\ Trace[j].id = i]
Ret(i) == Trace[RetIdx[i]]

VARIABLES ctr,     \* ctr[d] : counter of document d (function over the documents seen)
          keys,    \* set of created keys
          pend,    \* invoked, not yet linearized
          lind,    \* linearized, not yet returned
          inmerge, \* documents whose incoming merge is inside its critical section (between the recorded mb and me marks)
          l
vars == <<ctr, keys, pend, lind, inmerge, l>>

Docs == {Trace[j].d : j \in 1..Len(Trace)}
Init == ctr = [d \in Docs |-> 0] /\ keys = {} /\ pend = {} /\ lind = {} /\ inmerge = {} /\ l = 1

Cur == Trace[l]
Inv == /\ Mode = "lin" /\ l <= Len(Trace) /\ Cur.ev = "inv" /\ pend' = pend \cup {Cur.id} /\ l' = l + 1 /\ UNCHANGED <<ctr, keys, lind, inmerge>>
\* the silent linearization step of a pending call, judged with the result the call returned
Lin(i) == /\ Mode = "lin" /\ i \in pend
          /\ LET r == Ret(i) IN
             /\ CASE r.op \in {"inc", "merge"} ->
                       (ctr' = (IF r.res = "ok" THEN [ctr EXCEPT ![r.d] = @ + r.k] ELSE ctr)) /\ (keys' = keys)
                  [] r.op = "create" ->
                       (r.res = "ok" => r.d \notin keys) /\ (keys' = (IF r.res = "ok" THEN keys \cup {r.d} ELSE keys)) /\ (ctr' = ctr)
                  [] r.op = "read" ->
                       (r.res = "ok" => r.val = ctr[r.d]) /\ (ctr' = ctr) /\ (keys' = keys)
                  [] r.op = "exists" ->
                       (r.res = "ok" => ((r.val = 1) = (r.d \in keys))) /\ (ctr' = ctr) /\ (keys' = keys)
                  [] OTHER -> (ctr' = ctr) /\ (keys' = keys)
          /\ pend' = pend \ {i} /\ lind' = lind \cup {i} /\ UNCHANGED <<l, inmerge>>
RetStep == /\ Mode = "lin" /\ l <= Len(Trace) /\ Cur.ev = "ret" /\ Cur.id \in lind
           /\ lind' = lind \ {Cur.id} /\ l' = l + 1 /\ UNCHANGED <<ctr, keys, pend, inmerge>>
\* internal/db/messages.go: the merge queue admits one merge per document at a time. The marks are recorded by the real
\* goroutine inside the critical section (hooks merge.begin / merge.end), so two of them never nest for one document.
MBegin == /\ Mode = "mutex" /\ l <= Len(Trace) /\ Cur.ev = "mb" /\ Cur.d \notin inmerge
          /\ inmerge' = inmerge \cup {Cur.d} /\ l' = l + 1 /\ UNCHANGED <<ctr, keys, pend, lind>>
MEnd == /\ Mode = "mutex" /\ l <= Len(Trace) /\ Cur.ev = "me" /\ Cur.d \in inmerge
        /\ inmerge' = inmerge \ {Cur.d} /\ l' = l + 1 /\ UNCHANGED <<ctr, keys, pend, lind>>
\* lines that the mode does not look at
Skip == /\ l <= Len(Trace) /\ l' = l + 1 /\ UNCHANGED <<ctr, keys, pend, lind, inmerge>>
        /\ IF Mode = "lin" THEN Cur.ev \in {"mb", "me"} ELSE Cur.ev \in {"inv", "ret"}
Next == Inv \/ RetStep \/ MBegin \/ MEnd \/ Skip \/ \E i \in pend : Lin(i)
Spec == Init /\ [][Next]_vars
\* success signal: some branch consumed the whole history
NotAccepted == l <= Len(Trace)
\* progress of the best branch (diagnostics): -workers 1
Progress == TLCSet(1, IF TLCGet(1) > l THEN TLCGet(1) ELSE l)
=============================================================================
