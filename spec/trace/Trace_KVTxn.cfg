SPECIFICATION TraceSpec
CONSTANTS
  Docs = {"d1","d2","d3"}
  Txns = {1,2,3}
  MaxVal = 9
  MaxOps = 0
  Branchable = FALSE
  CheckEvents = TRUE
INVARIANTS TypeOK FirstCommitterWins SnapshotStable
VIEW TraceView
CHECK_DEADLOCK TRUE
