SPECIFICATION TraceSpec
CONSTANTS MaxN = 0 MaxEv = 0 WriteThrough = FALSE PublishEarly = FALSE
CHECK_DEADLOCK TRUE
