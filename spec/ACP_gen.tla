------------------------------- MODULE ACP_gen -------------------------------
EXTENDS ACP, Json, CSV, IOUtils
Export == CSVWrite("%1$s", <<ToJson(hist')>>, IOEnv.VERIF_OUT)
ExportLeaves == (steps' = MaxSteps) => Export
\* generation bias: start with private documents, patch the schema once early, then anything
GenNext == /\ steps < MaxSteps
           /\ IF steps < 2 THEN \E a \in Actors, d \in Docs, v \in 1..MaxVal : Create(a, d, v)
              ELSE IF steps = 3 THEN Patch
              ELSE Next
GenSpec == Init /\ [][GenNext]_vars
=============================================================================
