---------------------------- MODULE MerkleCRDT_gen ----------------------------
(* Behaviour export for the replay drivers: every transition appends the JSON of the *)
(* history (actions + predicted observations) to the file named by env VERIF_OUT.   *)
EXTENDS MerkleCRDT, Json, CSV, IOUtils
Export == CSVWrite("%1$s", <<ToJson(hist')>>, IOEnv.VERIF_OUT)
\* only "leaf" transitions (universe full and delivery budget used) in exhaustive runs
ExportLeaves == (nc' = MaxC /\ ndel' = MaxDeliver) => Export
\* Directed replays.  With Variant = "pinned" (the walk of the pinned commit) export exactly the
\* transitions at which that walk FIRST deviates from the abstract document; up to that point the
\* behaviour is a behaviour of the abstract specification, so a correct implementation must pass it,
\* while an implementation that walks like the pinned commit (or similarly) fails it.
RefAll == RefCtr /\ RefHeads /\ RefFHeads /\ RefDel /\ RefRegLWW /\ MergeNeverFails
ExportDeviations == IF RefAll THEN (RefAll' \/ Export) ELSE FALSE   \* deviated states are not extended
\* Bulk deliveries (simulation): staged so that most behaviours are diamonds. The writers (every node but the highest)
\* all create the document, diverge with local updates, exchange heads and one of them writes on top of both branches;
\* only then the highest node (Sink), which never wrote and has seen nothing, is handed heads: each of its merges walks a
\* whole unmerged history (branches of different lengths, fields written on one branch only) in one go - the case the
\* per-commit deliveries of the other generators rarely produce.
Sink == CHOOSE n \in Nodes : \A m \in Nodes : m <= n
W == Nodes \ {Sink}
OthersHeads(n) == UNION {hd[m] : m \in W \ {n}}
BulkNext ==
  \/ /\ \E n \in W : mrg[n] = {}
     /\ \E n \in W : mrg[n] = {} /\ Create(n)
  \/ /\ \A n \in W : mrg[n] # {}
     /\ nc < MaxC - 1 /\ \E n \in W : Update(n)
  \/ /\ \A n \in W : mrg[n] # {}
     /\ nc = MaxC - 1
     /\ \E n \in W : IF OthersHeads(n) \subseteq mrg[n] THEN Update(n)
                     ELSE \E c \in OthersHeads(n) \ mrg[n] : Deliver(n, c)
  \/ nc = MaxC /\ \E c \in UNION {hd[m] : m \in W} : c \notin mrg[Sink] /\ Deliver(Sink, c)
BulkSpec == Init /\ [][BulkNext]_vars
\* exhaustive variant: export exactly the transitions in which the fresh sink merges a history of at least MinBulk commits
MinBulk == 5
ExportSink == (mrg[Sink] = {} /\ Cardinality(mrg'[Sink]) >= MinBulk) => Export
=============================================================================
