---------------------------- MODULE MerkleCRDT_gen ----------------------------
(* Behaviour export for the replay drivers: every transition appends the JSON of the *)
(* history (actions + predicted observations) to the file named by env VERIF_OUT.   *)
EXTENDS MerkleCRDT, Json, CSV, IOUtils
Export == CSVWrite("%1$s", <<ToJson(hist')>>, IOEnv.VERIF_OUT)
\* only "leaf" transitions (universe full and delivery budget used) in exhaustive runs
ExportLeaves == (nc' = MaxC /\ ndel' = MaxDeliver) => Export
\* Directed replays.  With Variant = "pinned" (the walk of the pinned commit) export exactly the
\* transitions at which that walk FIRST deviates from the abstract document; up to that point the
\* behaviour is a behaviour of the abstract specification, so a correct implementation must pass it,
\* while an implementation that walks like the pinned commit (or similarly) fails it.
RefAll == RefCtr /\ RefHeads /\ RefFHeads /\ RefDel /\ RefRegLWW /\ MergeNeverFails
ExportDeviations == IF RefAll THEN (RefAll' \/ Export) ELSE FALSE   \* deviated states are not extended
\* Bulk deliveries (simulation): the highest node never writes and receives nothing until every commit exists; then it is
\* handed heads of the writers only, so each of its merges walks a whole unmerged history (diamonds with branches of
\* different lengths, fields written on one branch only) in one go - the case the per-commit deliveries rarely produce.
Sink == CHOOSE n \in Nodes : \A m \in Nodes : m <= n
BulkNext == \/ \E n \in Nodes \ {Sink} : Create(n) \/ Update(n) \/ \E c \in Ids : Deliver(n, c)
            \/ nc = MaxC /\ \E c \in UNION {hd[m] : m \in Nodes \ {Sink}} : Deliver(Sink, c)
BulkSpec == Init /\ [][BulkNext]_vars
=============================================================================
