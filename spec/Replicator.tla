------------------------------- MODULE Replicator -------------------------------
(***************************************************************************)
(* Replication from node A to node B with a configured replicator (C15).   *)
(* Implementation shaped: one action per critical section of net/          *)
(*                                                                         *)
(*  A side (net/peer.go, net/client.go, net/p2p_replicator.go)             *)
(*   Write(d)        a local commit on A; the update event makes           *)
(*                   pushLogToReplicators spawn one push goroutine         *)
(*   PushOK/PushFail the grpc PushLog of that goroutine returns; on failure *)
(*                   handleReplicatorFailure (one txn under                *)
(*                   handleRetryMutex): status inactive, create the retry  *)
(*                   record if absent, set the per-document marker         *)
(*   RetryTick       retryReplicators: record due and not retrying ->      *)
(*                   Retrying := TRUE (persisted), spawn retryReplicator,  *)
(*                   which iterates the markers that exist NOW             *)
(*   RetryDocOK/Fail retryDoc: read the CURRENT heads in a fresh txn and    *)
(*                   push them with IsRetry (a failure is not recorded     *)
(*                   again: the record is rescheduled, the run stops)      *)
(*   RetryDelMark    the separate, unprotected delete of the marker        *)
(*   RetryDone       handleCompletedReplicatorRetry(success): no marker    *)
(*                   left -> delete the record, status active; else due now*)
(*  B side (net/server.go, internal/db/messages.go)                        *)
(*   the push is acknowledged when processPushlog has stored the blocks    *)
(*   and PUBLISHED a merge event (volatile); BMerge = executeMerge commits *)
(*  Environment                                                            *)
(*   BDown(kind)     "net": B unreachable, its process lives;              *)
(*                   "restart": B's process stops, the volatile merge      *)
(*                   events are lost                                       *)
(*   BUp, Patch      (the schema is patched on both nodes: a retried push  *)
(*                   carries the schema VERSION id as collection id and is *)
(*                   dropped by the receiver after a patch)                *)
(*                                                                         *)
(* CONSTANTS name the deviations of the pinned protocol so that both the   *)
(* protocol as coded and a protocol without them can be checked:           *)
(*   DurableInbox      merge events survive a restart of B                 *)
(*   SafeMarkDelete    the marker is deleted before the retried push, so a *)
(*                     failure recorded during the push is not erased      *)
(*   RetryUsesRootId   a retried push carries an id the receiver resolves  *)
(*                     after a patch (replayed on the real code: it does,  *)
(*                     the retried push after a patch IS merged; TRUE is   *)
(*                     the pinned behaviour, FALSE a what-if)               *)
(***************************************************************************)
EXTENDS Integers, Sequences, FiniteSets, TLC, SequencesExt

CONSTANTS Docs, MaxV, MaxDown, AllowPatch,
          DurableInbox, SafeMarkDelete, RetryUsesRootId

VARIABLES ver,      \* ver[d]   : number of commits A has written to d (A's head)
          bmer,     \* bmer[d]  : highest version merged on B
          binbox,   \* set of [d, v, ok] merge events queued on B (ok = FALSE: will be dropped by the merge)
          bup,      \* "up" | "net" | "restart"
          push,     \* set of [d, v] first-attempt pushes in flight on A
          rec,      \* retry record on A: "none" | "idle" (due) | "retrying"
          marks,    \* set of documents with a retry marker
          rtq,      \* markers the running retryReplicator still has to visit (its iterator)
          rtcur,    \* document whose retried push succeeded and whose marker is about to be deleted (0 = none; documents are positive integers)
          patched,  \* the schema has been patched
          downs
vars == <<ver, bmer, binbox, bup, push, rec, marks, rtq, rtcur, patched, downs>>

Init == /\ ver = [d \in Docs |-> 0] /\ bmer = [d \in Docs |-> 0] /\ binbox = {} /\ bup = "up"
        /\ push = {} /\ rec = "none" /\ marks = {} /\ rtq = <<>> /\ rtcur = 0 /\ patched = FALSE /\ downs = 0

MaxOf(a, b) == IF a > b THEN a ELSE b
Reachable == bup = "up"

Write(d) == /\ ver[d] < MaxV /\ ver' = [ver EXCEPT ![d] = @ + 1]
            /\ push' = push \cup {[d |-> d, v |-> ver[d] + 1]}
            /\ UNCHANGED <<bmer, binbox, bup, rec, marks, rtq, rtcur, patched, downs>>
PushOK(t) == /\ t \in push /\ Reachable /\ push' = push \ {t}
             /\ binbox' = binbox \cup {[d |-> t.d, v |-> t.v, ok |-> TRUE]}
             /\ UNCHANGED <<ver, bmer, bup, rec, marks, rtq, rtcur, patched, downs>>
PushFail(t) == /\ t \in push /\ ~Reachable /\ push' = push \ {t}
               /\ rec' = IF rec = "none" THEN "idle" ELSE rec
               /\ marks' = marks \cup {t.d}
               /\ UNCHANGED <<ver, bmer, binbox, bup, rtq, rtcur, patched, downs>>
BMerge(e) == /\ e \in binbox /\ bup # "restart" /\ binbox' = binbox \ {e}
             /\ bmer' = [bmer EXCEPT ![e.d] = IF e.ok THEN MaxOf(@, e.v) ELSE @]
             /\ UNCHANGED <<ver, bup, push, rec, marks, rtq, rtcur, patched, downs>>
BDown(kind) == /\ bup = "up" /\ downs < MaxDown /\ bup' = kind /\ downs' = downs + 1
               /\ binbox' = IF kind = "restart" /\ ~DurableInbox THEN {} ELSE binbox
               /\ UNCHANGED <<ver, bmer, push, rec, marks, rtq, rtcur, patched>>
BUp == /\ bup # "up" /\ bup' = "up" /\ UNCHANGED <<ver, bmer, binbox, push, rec, marks, rtq, rtcur, patched, downs>>
Patch == /\ AllowPatch /\ ~patched /\ patched' = TRUE
         /\ UNCHANGED <<ver, bmer, binbox, bup, push, rec, marks, rtq, rtcur, downs>>

RetryTick == /\ rec = "idle" /\ rec' = "retrying" /\ rtq' = SetToSortSeq(marks, <) /\ rtcur' = 0
             /\ UNCHANGED <<ver, bmer, binbox, bup, push, marks, patched, downs>>
RetryDocOK == /\ rec = "retrying" /\ rtcur = 0 /\ rtq # <<>> /\ Reachable
              /\ LET d == Head(rtq) IN
                 /\ binbox' = IF ver[d] > 0 THEN binbox \cup {[d |-> d, v |-> ver[d], ok |-> RetryUsesRootId \/ ~patched]} ELSE binbox
                 /\ rtcur' = d
                 /\ marks' = IF SafeMarkDelete THEN marks \ {d} ELSE marks
              /\ UNCHANGED <<ver, bmer, bup, push, rec, rtq, patched, downs>>
RetryDocFail == /\ rec = "retrying" /\ rtcur = 0 /\ rtq # <<>> /\ ~Reachable
                /\ rec' = "idle" /\ rtq' = <<>>
                /\ UNCHANGED <<ver, bmer, binbox, bup, push, marks, rtcur, patched, downs>>
RetryDelMark == /\ rec = "retrying" /\ rtcur # 0
                /\ marks' = IF SafeMarkDelete THEN marks ELSE marks \ {rtcur}
                /\ rtcur' = 0 /\ rtq' = Tail(rtq)
                /\ UNCHANGED <<ver, bmer, binbox, bup, push, rec, patched, downs>>
RetryDone == /\ rec = "retrying" /\ rtcur = 0 /\ rtq = <<>>
             /\ rec' = IF marks = {} THEN "none" ELSE "idle"
             /\ UNCHANGED <<ver, bmer, binbox, bup, push, marks, rtq, rtcur, patched, downs>>

Task == [d : Docs, v : 1..MaxV]
InboxItem == [d : Docs, v : 1..MaxV, ok : BOOLEAN]
Sys == \/ \E t \in Task : PushOK(t) \/ PushFail(t)
       \/ \E e \in InboxItem : BMerge(e)
       \/ RetryTick \/ RetryDocOK \/ RetryDocFail \/ RetryDelMark \/ RetryDone
Env == (\E d \in Docs : Write(d)) \/ (\E k \in {"net", "restart"} : BDown(k)) \/ BUp \/ Patch
Next == Sys \/ Env
Spec == Init /\ [][Next]_vars /\ WF_vars(Sys) /\ WF_vars(BUp)

TypeOK == /\ rec \in {"none", "idle", "retrying"} /\ bup \in {"up", "net", "restart"} /\ marks \subseteq Docs
Converged == \A d \in Docs : bmer[d] = ver[d]
\* a quiescent system (nothing in flight, nothing scheduled, B reachable) that is behind stays behind for ever:
\* the safety core of "eventually delivers"
Quiet == push = {} /\ binbox = {} /\ rec = "none" /\ bup = "up"
NoStuck == Quiet => Converged
BMergedMonotone == [][\A d \in Docs : bmer'[d] >= bmer[d]]_vars
\* liveness (checked without a state constraint): once writes and outages stop, B catches up
EventuallyDelivered == <>[](Converged \/ ~Quiet) /\ ([]<>Quiet => <>[]Converged)
=============================================================================
