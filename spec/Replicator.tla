------------------------------- MODULE Replicator -------------------------------
(***************************************************************************)
(* Replication from node A to node B with a configured replicator (C15).   *)
(* Implementation shaped: one action per critical section of net/          *)
(*                                                                         *)
(*  A side (net/peer.go, net/client.go, net/p2p_replicator.go)             *)
(*   Write(d)        a local commit on A; the update event makes           *)
(*                   pushLogToReplicators spawn one push goroutine         *)
(*   PushOK/PushFail the grpc PushLog of that goroutine returns; on failure *)
(*                   handleReplicatorFailure (one txn under                *)
(*                   handleRetryMutex): status inactive, create the retry  *)
(*                   record if absent, set the per-document marker         *)
(*   RetryTick       retryReplicators: record due and not retrying ->      *)
(*                   Retrying := TRUE (persisted), spawn retryReplicator,  *)
(*                   which iterates the markers that exist NOW             *)
(*   RetryDocOK/Fail retryDoc: read the CURRENT heads in a fresh txn and    *)
(*                   push them with IsRetry (a failure is not recorded     *)
(*                   again: the record is rescheduled, the run stops)      *)
(*   RetryDelMark    the separate, unprotected delete of the marker        *)
(*   RetryDone       handleCompletedReplicatorRetry(success): no marker    *)
(*                   left -> delete the record, status active; else due now*)
(*  B side (net/server.go, net/sync_dag.go, internal/db/messages.go)       *)
(*   PushRecv        processPushlog / syncDAG stored the pushed HEAD block *)
(*                   (durable) and starts to fetch the blocks it links to  *)
(*   PushOK          the links are loaded, a merge event is PUBLISHED      *)
(*                   (volatile) and the push is acknowledged               *)
(*   BMerge          executeMerge commits                                  *)
(*  Environment                                                            *)
(*   BDown(kind)     "net": B unreachable, its process lives;              *)
(*                   "restart": B's process stops, the volatile merge      *)
(*                   events are lost                                       *)
(*   BUp, Patch      (the schema is patched on both nodes: a retried push  *)
(*                   carries the schema VERSION id as collection id and is *)
(*                   dropped by the receiver after a patch)                *)
(*                                                                         *)
(* CONSTANTS name the deviations of the pinned protocol so that both the   *)
(* protocol as coded and a protocol without them can be checked:           *)
(*   DurableInbox      merge events survive a restart of B                 *)
(*   SafeMarkDelete    the marker is deleted before the retried push, so a *)
(*                     failure recorded during the push is not erased      *)
(*   RetryUsesRootId   a retried push carries an id the receiver resolves  *)
(*                     after a patch (replayed on the real code: it does,  *)
(*                     the retried push after a patch IS merged; TRUE is   *)
(*                     the pinned behaviour, FALSE a what-if)               *)
(*   AckIfHeadPresent  a what-if (FALSE is the pinned behaviour): the      *)
(*                     receiver acknowledges a push whose head block it    *)
(*                     already stores without syncing or merging; "head    *)
(*                     stored" does not imply "head merged" (PushRecv)     *)
(***************************************************************************)
EXTENDS Integers, Sequences, FiniteSets, TLC, SequencesExt

CONSTANTS Docs, MaxV, MaxDown, AllowPatch,
          DurableInbox, SafeMarkDelete, RetryUsesRootId, AckIfHeadPresent

VARIABLES ver,      \* ver[d]   : number of commits A has written to d (A's head)
          bmer,     \* bmer[d]  : highest version merged on B
          binbox,   \* set of [d, v, ok] merge events queued on B (ok = FALSE: will be dropped by the merge)
          bup,      \* "up" | "net" | "restart"
          push,     \* set of [d, v] first-attempt pushes in flight on A
          bsync,    \* subset of push: B has stored the head block of the push and is loading its links
          bheads,   \* set of [d, v]: head blocks in B's block store (durable)
          rec,      \* retry record on A: "none" | "idle" (due) | "retrying"
          marks,    \* set of documents with a retry marker
          rtq,      \* markers the running retryReplicator still has to visit (its iterator)
          rtcur,    \* document whose retried push succeeded and whose marker is about to be deleted (0 = none; documents are positive integers)
          patched,  \* the schema has been patched
          downs
vars == <<ver, bmer, binbox, bup, push, bsync, bheads, rec, marks, rtq, rtcur, patched, downs>>

Init == /\ ver = [d \in Docs |-> 0] /\ bmer = [d \in Docs |-> 0] /\ binbox = {} /\ bup = "up"
        /\ push = {} /\ bsync = {} /\ bheads = {} /\ rec = "none" /\ marks = {} /\ rtq = <<>> /\ rtcur = 0 /\ patched = FALSE /\ downs = 0

MaxOf(a, b) == IF a > b THEN a ELSE b
Reachable == bup = "up"

Write(d) == /\ ver[d] < MaxV /\ ver' = [ver EXCEPT ![d] = @ + 1]
            /\ push' = push \cup {[d |-> d, v |-> ver[d] + 1]}
            /\ UNCHANGED <<bmer, binbox, bup, bsync, bheads, rec, marks, rtq, rtcur, patched, downs>>
Known(t) == AckIfHeadPresent /\ t \in bheads
\* the head block is written first (syncDAG: linkSystem.Store), its links are fetched afterwards
PushRecv(t) == /\ t \in push \ bsync /\ Reachable
               /\ IF Known(t) THEN /\ push' = push \ {t}          \* what-if: acknowledged, nothing synced or merged
                                    /\ UNCHANGED <<bsync, bheads>>
                  ELSE /\ bsync' = bsync \cup {t} /\ bheads' = bheads \cup {t} /\ UNCHANGED push
               /\ UNCHANGED <<ver, bmer, binbox, bup, rec, marks, rtq, rtcur, patched, downs>>
PushOK(t) == /\ t \in bsync /\ Reachable /\ push' = push \ {t} /\ bsync' = bsync \ {t}
             /\ binbox' = binbox \cup {[d |-> t.d, v |-> t.v, ok |-> TRUE]}
             /\ UNCHANGED <<ver, bmer, bup, bheads, rec, marks, rtq, rtcur, patched, downs>>
\* B unreachable: before anything was stored, or in the middle of the sync (the head block stays behind)
PushFail(t) == /\ t \in push /\ ~Reachable /\ push' = push \ {t} /\ bsync' = bsync \ {t}
               /\ rec' = IF rec = "none" THEN "idle" ELSE rec
               /\ marks' = marks \cup {t.d}
               /\ UNCHANGED <<ver, bmer, binbox, bup, bheads, rtq, rtcur, patched, downs>>
BMerge(e) == /\ e \in binbox /\ bup # "restart" /\ binbox' = binbox \ {e}
             /\ bmer' = [bmer EXCEPT ![e.d] = IF e.ok THEN MaxOf(@, e.v) ELSE @]
             /\ UNCHANGED <<ver, bup, push, bsync, bheads, rec, marks, rtq, rtcur, patched, downs>>
BDown(kind) == /\ bup = "up" /\ downs < MaxDown /\ bup' = kind /\ downs' = downs + 1
               /\ binbox' = IF kind = "restart" /\ ~DurableInbox THEN {} ELSE binbox
               \* the handlers of a stopped process are gone (the head blocks they stored are not); the pushes themselves
               \* stay in flight on A until its call fails (PushFail) or, if B is back first, is served again
               /\ bsync' = IF kind = "restart" THEN {} ELSE bsync
               /\ UNCHANGED <<ver, bmer, push, bheads, rec, marks, rtq, rtcur, patched>>
BUp == /\ bup # "up" /\ bup' = "up" /\ UNCHANGED <<ver, bmer, binbox, push, bsync, bheads, rec, marks, rtq, rtcur, patched, downs>>
Patch == /\ AllowPatch /\ ~patched /\ patched' = TRUE
         /\ UNCHANGED <<ver, bmer, binbox, bup, push, bsync, bheads, rec, marks, rtq, rtcur, downs>>

RetryTick == /\ rec = "idle" /\ rec' = "retrying" /\ rtq' = SetToSortSeq(marks, <) /\ rtcur' = 0
             /\ UNCHANGED <<ver, bmer, binbox, bup, push, bsync, bheads, marks, patched, downs>>
RetryDocOK == /\ rec = "retrying" /\ rtcur = 0 /\ rtq # <<>> /\ Reachable
              /\ LET d == Head(rtq) IN
                 /\ binbox' = IF ver[d] > 0 /\ ~Known([d |-> d, v |-> ver[d]])
                              THEN binbox \cup {[d |-> d, v |-> ver[d], ok |-> RetryUsesRootId \/ ~patched]} ELSE binbox
                 /\ bheads' = IF ver[d] > 0 THEN bheads \cup {[d |-> d, v |-> ver[d]]} ELSE bheads
                 /\ rtcur' = d
                 /\ marks' = IF SafeMarkDelete THEN marks \ {d} ELSE marks
              /\ UNCHANGED <<ver, bmer, bup, push, bsync, bheads, rec, rtq, patched, downs>>
RetryDocFail == /\ rec = "retrying" /\ rtcur = 0 /\ rtq # <<>> /\ ~Reachable
                /\ rec' = "idle" /\ rtq' = <<>>
                /\ UNCHANGED <<ver, bmer, binbox, bup, push, bsync, bheads, marks, rtcur, patched, downs>>
RetryDelMark == /\ rec = "retrying" /\ rtcur # 0
                /\ marks' = IF SafeMarkDelete THEN marks ELSE marks \ {rtcur}
                /\ rtcur' = 0 /\ rtq' = Tail(rtq)
                /\ UNCHANGED <<ver, bmer, binbox, bup, push, bsync, bheads, rec, patched, downs>>
RetryDone == /\ rec = "retrying" /\ rtcur = 0 /\ rtq = <<>>
             /\ rec' = IF marks = {} THEN "none" ELSE "idle"
             /\ UNCHANGED <<ver, bmer, binbox, bup, push, bsync, bheads, marks, rtq, rtcur, patched, downs>>

Task == [d : Docs, v : 1..MaxV]
InboxItem == [d : Docs, v : 1..MaxV, ok : BOOLEAN]
Sys == \/ \E t \in Task : PushRecv(t) \/ PushOK(t) \/ PushFail(t)
       \/ \E e \in InboxItem : BMerge(e)
       \/ RetryTick \/ RetryDocOK \/ RetryDocFail \/ RetryDelMark \/ RetryDone
Env == (\E d \in Docs : Write(d)) \/ (\E k \in {"net", "restart"} : BDown(k)) \/ BUp \/ Patch
Next == Sys \/ Env
Spec == Init /\ [][Next]_vars /\ WF_vars(Sys) /\ WF_vars(BUp)

TypeOK == /\ rec \in {"none", "idle", "retrying"} /\ bup \in {"up", "net", "restart"} /\ marks \subseteq Docs
Converged == \A d \in Docs : bmer[d] = ver[d]
\* a quiescent system (nothing in flight, nothing scheduled, B reachable) that is behind stays behind for ever:
\* the safety core of "eventually delivers"
Quiet == push = {} /\ binbox = {} /\ rec = "none" /\ bup = "up"
NoStuck == Quiet => Converged
BMergedMonotone == [][\A d \in Docs : bmer'[d] >= bmer[d]]_vars
\* liveness (checked without a state constraint): once writes and outages stop, B catches up
EventuallyDelivered == <>[](Converged \/ ~Quiet) /\ ([]<>Quiet => <>[]Converged)
=============================================================================
