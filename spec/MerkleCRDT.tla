------------------------------- MODULE MerkleCRDT -------------------------------
(***************************************************************************)
(* One replicated DefraDB document (composite Merkle clock + one clock per *)
(* field) on several nodes.                                                *)
(*                                                                         *)
(* ABSTRACT part (the oracle of C01-C04): a global, content-addressed      *)
(* commit universe and, per node, the set mrg[n] of commits it has merged. *)
(* Everything a client can observe is a FUNCTION of mrg[n]: Eval*, Heads,  *)
(* StateAt.                                                                *)
(*                                                                         *)
(* IMPLEMENTATION-SHAPED part (internal/db/merge.go,                       *)
(* internal/core/block/store.go, internal/core/crdt/{lww,counter,          *)
(* composite}.go): per node the head stores, the register (value,priority),*)
(* the counter value, the deleted marker, as the Go code maintains them by *)
(* walking the DAG (loadComposites) and applying blocks (processBlock,      *)
(* updateHeads, LWW.setValue, Counter.incrementValue).  CONSTANT Variant   *)
(* selects the walk: "pinned" = the walk of the pinned commit (kept as a   *)
(* counterexample generator), "repaired" = the walk after the fix.         *)
(* The refinement invariants Ref* say that the stores equal the abstract   *)
(* functions of mrg.                                                       *)
(***************************************************************************)
EXTENDS Integers, Sequences, FiniteSets, TLC, SequencesExt, FiniteSetsExt

CONSTANTS Nodes,        \* e.g. {1,2,3}
          MaxC,         \* max number of commits in the universe
          Ctrs,         \* counter field names, e.g. {"k"}
          Regs,         \* register field names, e.g. {"r"}
          Vals,         \* register values: naturals, NullV is null
          Incs,         \* counter increments, e.g. {1,-1}
          Variant,      \* "pinned" | "repaired"
          NullTieFails, \* TRUE: model D1 (tie against a stored null fails)
          MaxDeliver    \* bound on the number of Deliver steps (0: unbounded)

IncsPN == {1, -1}       \* for cfg files (no negative literals there):  Incs <- IncsPN
NullV == 0              \* the null register value
NoW   == -99            \* "field not written by this commit"
Fields == Ctrs \cup Regs
Ids == 1..MaxC

VARIABLES
  \* --- content-addressed commit universe (global)
  nc,      \* number of commits so far
  par,     \* par[c]  : set of composite parents
  ht,      \* ht[c]   : composite height
  kind,    \* kind[c] : "none" | "create" | "upd" | "del"
  cw,      \* cw[c][f]: increment of counter f, or NoW
  rw,      \* rw[c][f]: value written to register f, or NoW
  fpar,    \* fpar[c][f]: commits whose f-block is a parent of c's f-block
  fht,     \* fht[c][f] : height of c's f-block (0 if none)
  fid,     \* fid[c][f] : identity of c's f-block = the first commit that produced a block with the same
           \*             content and parents (field blocks are content addressed on their own: two different
           \*             composites may link the SAME register block); field parents/heads hold such ids
  \* --- per node, abstract
  mrg,     \* mrg[n]: set of merged commits
  \* --- per node, implementation stores
  hd,      \* hd[n]: composite head store
  fhd,     \* fhd[n][f]: head store of field f (commit ids whose f-block is head)
  ctr,     \* ctr[n][f]: stored counter value
  reg,     \* reg[n][f]: [v |-> value, p |-> priority]
  del,     \* del[n]: deleted marker
  failed,  \* failed[n]: some merge returned an error (ghost)
  ndel,    \* number of Deliver steps so far (bound only)
  hist     \* history of actions with predicted observations (hidden by VIEW)

cvars == <<nc, par, ht, kind, cw, rw, fpar, fht, fid>>
nvars == <<mrg, hd, fhd, ctr, reg, del, failed>>
vars  == <<cvars, nvars, ndel, hist>>
view  == <<cvars, nvars, ndel>>

MaxOf(S) == IF S = {} THEN 0 ELSE Max(S)

-----------------------------------------------------------------------------
(* Abstract functions of a set S of commits *)

RECURSIVE Anc(_)
Anc(c) == {c} \cup UNION {Anc(p) : p \in par[c]}

RECURSIVE FAnc(_, _)          \* ancestry inside the clock of field f
FAnc(c, f) == {c} \cup UNION {FAnc(p, f) : p \in fpar[c][f]}

Writers(S, f) == {c \in S : IF f \in Ctrs THEN cw[c][f] # NoW ELSE rw[c][f] # NoW}

RECURSIVE SumInc(_, _)
SumInc(S, f) == IF S = {} THEN 0
                ELSE LET c == CHOOSE x \in S : TRUE IN cw[c][f] + SumInc(S \ {c}, f)
EvalCtr(S, f) == SumInc(Writers(S, f), f)                     \* each increment once

Heads(S)     == {c \in S : ~\E d \in S : c \in par[d]}
FBlocks(S, f) == {fid[c][f] : c \in Writers(S, f)}
FHeads(S, f) == {b \in FBlocks(S, f) : ~\E d \in Writers(S, f) : b \in fpar[d][f]}

\* register: values of the causally maximal writes among S (property C02)
RegAllowed(S, f) == IF Writers(S, f) = {} THEN {NullV}
                    ELSE {rw[b][f] : b \in FHeads(S, f)}
\* the tie-break the code implements: maximal (field height, value rank)
ValRank(v) == IF v = NullV THEN 1000 ELSE v     \* CBOR null 0xf6 sorts above ints/strings
EvalRegLWW(S, f) ==
  IF Writers(S, f) = {} THEN NullV
  ELSE LET W == Writers(S, f)
           m == CHOOSE c \in W : \A d \in W :
                   \/ fht[c][f] > fht[d][f]
                   \/ fht[c][f] = fht[d][f] /\ ValRank(rw[c][f]) >= ValRank(rw[d][f])
       IN rw[m][f]
EvalDel(S) == \E c \in S : kind[c] = "del"

Obs(S) == [ctr |-> [f \in Ctrs |-> EvalCtr(S, f)],
           nw  |-> [f \in Ctrs |-> Cardinality(Writers(S, f))],
           regAllowed |-> [f \in Regs |-> RegAllowed(S, f)],
           regLWW |-> [f \in Regs |-> EvalRegLWW(S, f)],
           del |-> EvalDel(S),
           exists |-> S # {},
           heads |-> Heads(S),
           fheads |-> [f \in Fields |-> FHeads(S, f)],
           mrg |-> S]
StateAt(c) == Obs(Anc(c))                                      \* time travel, C03

-----------------------------------------------------------------------------
(* Implementation-shaped block application *)

\* updateHeads: every applied block ends up in the head set; parents that are heads are replaced
UpdHeads(H, b, ps) == (H \ ps) \cup {b}

\* LWW.setValue; returns the new register and whether the call failed (D1)
SetValue(r, v, p) ==
  IF p < r.p THEN [r |-> r, fail |-> FALSE]
  ELSE IF p = r.p
       THEN IF NullTieFails /\ r.v = NullV THEN [r |-> r, fail |-> TRUE]
            ELSE IF ValRank(r.v) >= ValRank(v) THEN [r |-> r, fail |-> FALSE]
                 ELSE [r |-> [v |-> v, p |-> p], fail |-> FALSE]
       ELSE [r |-> [v |-> v, p |-> p], fail |-> FALSE]

\* A field block can be linked by several composite blocks (an identical register write on the same field heads made on
\* two nodes is one block). mergeProcessor.processBlock skips a field block that is already a head of its field or an
\* ancestor of one (isFieldBlockMerged); as coded at the pinned commit it was processed again and became a head although
\* later blocks of the field name it as parent.
RECURSIVE FBAnc(_, _)
FBAnc(f, b) == {b} \cup UNION {FBAnc(f, p) : p \in fpar[b][f]}
FMerged(f, H, b) == \E h \in H : b \in FBAnc(f, h)

\* node store as one record, applying one composite block c (processBlock)
Store(n) == [hd |-> hd[n], fhd |-> fhd[n], ctr |-> ctr[n], reg |-> reg[n], del |-> del[n], fail |-> FALSE]
ApplyBlockC(s, c, parc, fparc, cwc, rwc, fhtc, kindc, fidc) ==
  LET regres == [f \in Regs |-> IF rwc[f] = NoW THEN [r |-> s.reg[f], fail |-> FALSE]
                                 ELSE SetValue(s.reg[f], rwc[f], fhtc[f])]
      wrote(f) == IF f \in Ctrs THEN cwc[f] # NoW ELSE rwc[f] # NoW
  IN [hd  |-> UpdHeads(s.hd, c, parc),
      fhd |-> [f \in Fields |-> IF wrote(f) /\ ~(Variant = "repaired" /\ FMerged(f, s.fhd[f], fidc[f]))
                                 THEN UpdHeads(s.fhd[f], fidc[f], fparc[f]) ELSE s.fhd[f]],
      ctr |-> [f \in Ctrs |-> IF cwc[f] = NoW THEN s.ctr[f] ELSE s.ctr[f] + cwc[f]],
      reg |-> [f \in Regs |-> regres[f].r],
      del |-> s.del \/ kindc = "del",
      fail |-> s.fail \/ \E f \in Regs : regres[f].fail]
ApplyBlock(s, c) == ApplyBlockC(s, c, par[c], fpar[c], cw[c], rw[c], fht[c], kind[c], fid[c])
RECURSIVE ApplySeq(_, _)
ApplySeq(s, w) == IF w = <<>> THEN s ELSE ApplySeq(ApplyBlock(s, Head(w)), Tail(w))

\* --- the walk of the pinned commit: loadComposites (internal/db/merge.go).
\* Set of possible DFS pre-order visit sequences; hh (mergeTarget.headHeight) is the height
\* of an arbitrary element of the target (map iteration order / "last one wins").
ParSeq(c) == SetToSortSeq(par[c], <)
RECURSIVE Load(_, _, _), LoadPars(_, _, _)
Load(c, mt, hh) ==
  IF c \in mt THEN {<<>>}
  ELSE IF ht[c] >= hh
       THEN { <<c>> \o r : r \in LoadPars(ParSeq(c), mt, hh) }
       ELSE LET nmt == UNION {par[b] : b \in mt} IN
            IF nmt = {} THEN Load(c, {}, 0)
            ELSE UNION { Load(c, nmt, ht[x]) : x \in nmt }
LoadPars(ps, mt, hh) ==
  IF ps = <<>> THEN {<<>>}
  ELSE { a \o b : a \in Load(Head(ps), mt, hh), b \in LoadPars(Tail(ps), mt, hh) }
PinnedWalks(n, c) ==
  IF hd[n] = {} THEN { Reverse(s) : s \in Load(c, {}, 0) }        \* PushFront
  ELSE UNION { { Reverse(s) : s \in Load(c, hd[n], ht[x]) } : x \in hd[n] }
\* --- the repaired walk: every unmerged ancestor exactly once, ascending height
RepairedWalk(n, c) ==
  SetToSortSeq(Anc(c) \ mrg[n], LAMBDA a, b : ht[a] < ht[b] \/ (ht[a] = ht[b] /\ a < b))
Walks(n, c) == IF Variant = "repaired" THEN {RepairedWalk(n, c)} ELSE PinnedWalks(n, c)

-----------------------------------------------------------------------------
Init ==
  /\ nc = 0
  /\ par = [i \in Ids |-> {}] /\ ht = [i \in Ids |-> 0] /\ kind = [i \in Ids |-> "none"]
  /\ cw = [i \in Ids |-> [f \in Ctrs |-> NoW]] /\ rw = [i \in Ids |-> [f \in Regs |-> NoW]]
  /\ fpar = [i \in Ids |-> [f \in Fields |-> {}]] /\ fht = [i \in Ids |-> [f \in Fields |-> 0]]
  /\ fid = [i \in Ids |-> [f \in Fields |-> 0]]
  /\ mrg = [n \in Nodes |-> {}] /\ hd = [n \in Nodes |-> {}]
  /\ fhd = [n \in Nodes |-> [f \in Fields |-> {}]]
  /\ ctr = [n \in Nodes |-> [f \in Ctrs |-> 0]]
  /\ reg = [n \in Nodes |-> [f \in Regs |-> [v |-> NullV, p |-> 0]]]
  /\ del = [n \in Nodes |-> FALSE] /\ failed = [n \in Nodes |-> FALSE]
  /\ ndel = 0
  /\ hist = <<>>

SetNode(n, s, newm) ==
  /\ mrg' = [mrg EXCEPT ![n] = newm]
  /\ hd'  = [hd EXCEPT ![n] = s.hd]   /\ fhd' = [fhd EXCEPT ![n] = s.fhd]
  /\ ctr' = [ctr EXCEPT ![n] = s.ctr] /\ reg' = [reg EXCEPT ![n] = s.reg]
  /\ del' = [del EXCEPT ![n] = s.del] /\ failed' = [failed EXCEPT ![n] = @ \/ s.fail]

\* a local write on node n: AddDelta per dirty field, then the composite (collection.save / applyDelete)
\* Blocks are content addressed: a local write whose composite and field blocks have the same content
\* and the same parents as an existing commit IS that commit (counter deltas carry a random nonce on
\* update, so only register-only updates and deletes can coincide).
FParOf(n, cwv, rwv) == [f \in Fields |-> IF (IF f \in Ctrs THEN cwv[f] # NoW ELSE rwv[f] # NoW) THEN fhd[n][f] ELSE {}]
Same(n, k, cwv, rwv) ==
  {e \in 1..nc : /\ kind[e] = k /\ k # "create" /\ par[e] = hd[n] /\ cw[e] = cwv /\ rw[e] = rwv
                 /\ \A f \in Ctrs : cwv[f] = NoW
                 /\ fpar[e] = FParOf(n, cwv, rwv)}
Rewrite(n, k, cwv, rwv) ==
  \E e \in Same(n, k, cwv, rwv) :
    /\ SetNode(n, ApplyBlock(Store(n), e), mrg[n] \cup {e})
    /\ UNCHANGED <<cvars, ndel>>
    /\ hist' = Append(hist, [a |-> "re" \o k, n |-> n, c |-> e, cw |-> cwv, rw |-> rwv, obs |-> Obs(mrg[n] \cup {e})])

NewCommit(n, k, cwv, rwv) ==
  \E c \in {nc + 1} :
  /\ Same(n, k, cwv, rwv) = {}
  /\ nc < MaxC /\ nc' = c
  /\ par'  = [par EXCEPT ![c] = hd[n]]
  /\ ht'   = [ht EXCEPT ![c] = 1 + MaxOf({ht[h] : h \in hd[n]})]
  /\ kind' = [kind EXCEPT ![c] = k]
  /\ cw'   = [cw EXCEPT ![c] = cwv] /\ rw' = [rw EXCEPT ![c] = rwv]
  /\ LET wrote(f) == IF f \in Ctrs THEN cwv[f] # NoW ELSE rwv[f] # NoW
         fparc == [f \in Fields |-> IF wrote(f) THEN fhd[n][f] ELSE {}]
         fhtc  == [f \in Fields |-> IF wrote(f) THEN 1 + MaxOf({fht[h][f] : h \in fhd[n][f]}) ELSE 0]
         \* an identical register block (same value, same parents) written earlier is the same block
         twin(f) == {e \in 1..nc : f \in Regs /\ rw[e][f] = rwv[f] /\ fid[e][f] = e /\ fpar[e][f] = fparc[f]}
         fidc  == [f \in Fields |-> IF ~wrote(f) THEN 0 ELSE IF twin(f) # {} THEN CHOOSE e \in twin(f) : TRUE ELSE c] IN
     /\ fpar' = [fpar EXCEPT ![c] = fparc]
     /\ fht'  = [fht EXCEPT ![c] = fhtc]
     /\ fid'  = [fid EXCEPT ![c] = fidc]
     /\ SetNode(n, ApplyBlockC(Store(n), c, hd[n], fparc, cwv, rwv, fhtc, k, fidc), mrg[n] \cup {c})
  /\ UNCHANGED ndel
  /\ hist' = Append(hist, [a |-> k, n |-> n, c |-> c,
                           cw |-> cwv, rw |-> rwv,
                           par |-> par'[c], ht |-> ht'[c], fpar |-> fpar'[c], fht |-> fht'[c], fid |-> fid'[c],
                           at |-> StateAt(c)', obs |-> Obs(mrg[n] \cup {c})'])

\* The document is created with fixed initial content; creating it on a second node that does not
\* have it yet yields the SAME commit (content addressing, nonce 0): modelled as re-using commit 1.
CreateVals == [cwv : [Ctrs -> Incs \cup {NoW}], rwv : [Regs -> Vals \cup {NoW}]]
Create(n) ==
  /\ mrg[n] = {}
  /\ IF nc = 0
     THEN \E w \in CreateVals : NewCommit(n, "create", w.cwv, w.rwv)
     ELSE /\ SetNode(n, ApplyBlock(Store(n), 1), {1})
          /\ UNCHANGED <<cvars, ndel>>
          /\ hist' = Append(hist, [a |-> "recreate", n |-> n, c |-> 1, obs |-> Obs({1})])
UpdVals == {w \in CreateVals : \E f \in Fields : IF f \in Ctrs THEN w.cwv[f] # NoW ELSE w.rwv[f] # NoW}
Update(n) == /\ hd[n] # {} /\ ~del[n]
             /\ \E w \in UpdVals : NewCommit(n, "upd", w.cwv, w.rwv) \/ Rewrite(n, "upd", w.cwv, w.rwv)
Delete(n) == /\ hd[n] # {} /\ ~del[n]
             /\ LET nc0 == [f \in Ctrs |-> NoW]  nr0 == [f \in Regs |-> NoW] IN
                NewCommit(n, "del", nc0, nr0) \/ Rewrite(n, "del", nc0, nr0)

\* commit c (any commit ever created: head, ancestor, repeat) reaches node n and is merged
Deliver(n, c) ==
  /\ c \in 1..nc
  /\ MaxDeliver = 0 \/ ndel < MaxDeliver
  /\ ndel' = IF MaxDeliver = 0 THEN ndel ELSE ndel + 1
  /\ \E w \in Walks(n, c) : SetNode(n, ApplySeq(Store(n), w), mrg[n] \cup Anc(c))
  /\ UNCHANGED cvars
  /\ hist' = Append(hist, [a |-> "deliver", n |-> n, c |-> c, obs |-> Obs(mrg[n] \cup Anc(c))'])

Next == \E n \in Nodes : Create(n) \/ Update(n) \/ Delete(n) \/ \E c \in Ids : Deliver(n, c)
Spec == Init /\ [][Next]_vars

-----------------------------------------------------------------------------
(* Properties *)

\* C01: replicas with the same merged set show the same document and the same heads
Converge == \A a, b \in Nodes : mrg[a] = mrg[b] =>
              /\ ctr[a] = ctr[b] /\ del[a] = del[b] /\ hd[a] = hd[b] /\ fhd[a] = fhd[b]
              /\ \A f \in Regs : reg[a][f].v = reg[b][f].v
MergeNeverFails == \A n \in Nodes : ~failed[n]
\* C02: exactly once
RefCtr == \A n \in Nodes : \A f \in Ctrs : ctr[n][f] = EvalCtr(mrg[n], f)
RefReg == \A n \in Nodes : \A f \in Regs : reg[n][f].v \in RegAllowed(mrg[n], f)
RefRegLWW == \A n \in Nodes : \A f \in Regs : reg[n][f].v = EvalRegLWW(mrg[n], f)
RefDel == \A n \in Nodes : del[n] = EvalDel(mrg[n])
NoResurrection == [][\A n \in Nodes : del[n] => del'[n]]_vars
MrgGrows == [][\A n \in Nodes : mrg[n] \subseteq mrg'[n]]_vars
\* C04: well-formed DAG
Closed == \A n \in Nodes : \A c \in mrg[n] : Anc(c) \subseteq mrg[n]
HeightRule == \A c \in 1..nc : /\ ht[c] = 1 + MaxOf({ht[p] : p \in par[c]})
                               /\ \A f \in Fields : fht[c][f] > 0 =>
                                    fht[c][f] = 1 + MaxOf({fht[p][f] : p \in fpar[c][f]})
RefHeads  == \A n \in Nodes : hd[n] = Heads(mrg[n])
RefFHeads == \A n \in Nodes : \A f \in Fields : fhd[n][f] = FHeads(mrg[n], f)
ParentsOlder == \A c \in 1..nc : par[c] \subseteq 1..(c-1)
\* the LWW tie-break always picks a causally maximal write (so the code's rule implies C02)
LWWIsCausal == \A n \in Nodes : \A f \in Regs : EvalRegLWW(mrg[n], f) \in RegAllowed(mrg[n], f)

TypeOK == /\ nc \in 0..MaxC
          /\ \A n \in Nodes : mrg[n] \subseteq 1..nc /\ hd[n] \subseteq 1..nc
=============================================================================
