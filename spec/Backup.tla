--------------------------------- MODULE Backup ---------------------------------
(***************************************************************************)
(* Export followed by import (C18).                                        *)
(*                                                                         *)
(* A database is a set of named documents (the name is a unique content    *)
(* field, so it identifies a document independently of its docID) with a   *)
(* value profile and relation edges name -> name.  Export writes, per      *)
(* collection, the documents; Import into an empty database re-creates     *)
(* them; document ids may change (they depend on content, and foreign keys *)
(* are content), but                                                       *)
(*     Canon(imported) = Canon(original)                                   *)
(* where Canon forgets ids: every document with its values and, for every  *)
(* relation field, the NAME of the document it points to.  Exporting the   *)
(* imported database again yields an equivalent file.                      *)
(* TLC enumerates the topologies; the harness instantiates value profiles  *)
(* with edge-case values of every supported kind.                          *)
(***************************************************************************)
EXTENDS Integers, Sequences, FiniteSets, TLC, Json, IOUtils, SequencesExt

\* ---- schema S2: Author 1-N Book ; S3: Person 1-1 Passport ; S4: User self reference ; S1: flat values
Authors == {"a1", "a2"}   Books == {"b1", "b2", "b3"}
None == "none"
\* every assignment of an optional author to every book, for every subset of existing authors and books
S2Cases == UNION { UNION { { [schema |-> "S2", authors |-> A, books |-> B, link |-> l]
                             : l \in [B -> A \cup {None}] } : B \in SUBSET Books } : A \in SUBSET Authors }
Persons == {"p1", "p2"}   Passports == {"q1", "q2"}
Injective(f) == \A x, y \in DOMAIN f : x # y /\ f[x] # None => f[x] # f[y]
S3Cases == UNION { UNION { { [schema |-> "S3", persons |-> P, passports |-> Q, link |-> l]
                             : l \in {f \in [Q -> P \cup {None}] : Injective(f)} } : Q \in SUBSET Passports } : P \in SUBSET Persons }
Users == {"u1", "u2", "u3"}
\* self reference: every user has an optional boss among the users (one-to-one: at most one minion per boss); chains, and cycles closed by an update
S4Cases == UNION { { [schema |-> "S4", users |-> U, link |-> l]
                     : l \in {f \in [U -> U \cup {None}] : Injective(f)} } : U \in (SUBSET Users) \ {{}} }
\* flat documents: which value profile each of up to three documents takes (profiles are edge-case rows in the harness)
Profiles == 0..7
S1Cases == { [schema |-> "S1", docs |-> d] : d \in UNION { [1..n -> Profiles] : n \in 0..2 } }

Cases == S1Cases \cup S2Cases \cup S3Cases \cup S4Cases
\* what import must preserve, stated over the abstract case: documents and name-level edges
Canon(c) == CASE c.schema = "S2" -> [docs |-> c.authors \cup c.books, edges |-> {<<b, c.link[b]>> : b \in {x \in c.books : c.link[x] # None}}]
              [] c.schema = "S3" -> [docs |-> c.persons \cup c.passports, edges |-> {<<q, c.link[q]>> : q \in {x \in c.passports : c.link[x] # None}}]
              [] c.schema = "S4" -> [docs |-> c.users, edges |-> {<<u, c.link[u]>> : u \in {x \in c.users : c.link[x] # None}}]
              [] c.schema = "S1" -> [docs |-> DOMAIN c.docs, edges |-> {}]
\* an edge is realisable only if its target exists (otherwise the harness leaves the foreign key empty)
Realisable(c) == \A e \in Canon(c).edges : e[2] \in Canon(c).docs
Export == { [case |-> c, canon |-> Canon(c)] : c \in {x \in Cases : Realisable(x)} }
ASSUME /\ ndJsonSerialize(IOEnv.VERIF_OUT, SetToSeq(Export))
       /\ PrintT(<<"cases", Cardinality(Export)>>)
VARIABLE dummy
Init == dummy = 0
Next == UNCHANGED dummy
Spec == Init /\ [][Next]_dummy
=============================================================================
