------------------------------ MODULE UniqueIndex ------------------------------
(***************************************************************************)
(* The acceptance rule of a unique secondary index (second clause of C07). *)
(*                                                                         *)
(* Collection T {k, u: Int, w: Int} with a unique index on u (Composite =  *)
(* FALSE) or on (u, w) (Composite = TRUE).  The indexed KEY of a document  *)
(* is u, resp. <<u, w>>; a key with a null component never conflicts (the  *)
(* guarantee is about non-null indexed values).  A local write is accepted *)
(* exactly when it leaves no two live documents with the same key;         *)
(* a rejected write changes nothing; deleting a document frees its key.    *)
(* The index may exist from the start or be created later (Late): creating *)
(* it is accepted exactly when the live documents have no duplicate key,   *)
(* and from then on the rule applies.                                      *)
(***************************************************************************)
EXTENDS Integers, Sequences, FiniteSets, TLC

CONSTANTS Docs, Vals, MaxSteps, Composite, Late
NULL == -100
AllVals == Vals \cup {NULL}

VARIABLES st,      \* st[d] : "absent" | "live" | "deleted"
          u, w,    \* field values
          indexed, \* the unique index exists
          steps, hist
vars == <<st, u, w, indexed, steps, hist>>
view == <<st, u, w, indexed, steps>>

Init == /\ st = [d \in Docs |-> "absent"] /\ u = [d \in Docs |-> NULL] /\ w = [d \in Docs |-> NULL]
        /\ indexed = ~Late /\ steps = 0 /\ hist = <<>>

KeyOf(uu, ww) == IF Composite THEN <<uu, ww>> ELSE <<uu>>
HasNull(key) == \E i \in 1..Len(key) : key[i] = NULL
Live == {d \in Docs : st[d] = "live"}
\* would document d with the values (uu, ww) clash with another live document?
Clash(d, uu, ww) == ~HasNull(KeyOf(uu, ww)) /\ \E e \in Live \ {d} : KeyOf(u[e], w[e]) = KeyOf(uu, ww)
NoDuplicates == \A d, e \in Live : d # e /\ ~HasNull(KeyOf(u[d], w[d])) => KeyOf(u[d], w[d]) # KeyOf(u[e], w[e])

Obs == [rows |-> {<<d, u[d], w[d]>> : d \in Live}, indexed |-> indexed]
Log(e) == hist' = Append(hist, [e EXCEPT !.obs = Obs']) /\ steps' = steps + 1
E(op) == [op |-> op, d |-> 0, u |-> NULL, w |-> NULL, route |-> "", res |-> "ok", obs |-> <<>>]
Routes == {"gql", "save"}

Create(d, uu, ww) ==
  /\ st[d] = "absent"
  /\ LET ok == ~(indexed /\ Clash(d, uu, ww)) IN
     /\ st' = IF ok THEN [st EXCEPT ![d] = "live"] ELSE st
     /\ u' = IF ok THEN [u EXCEPT ![d] = uu] ELSE u
     /\ w' = IF ok THEN [w EXCEPT ![d] = ww] ELSE w
     /\ UNCHANGED indexed
     /\ Log([E("create") EXCEPT !.d = d, !.u = uu, !.w = ww, !.res = IF ok THEN "ok" ELSE "refused"])
Update(d, uu, ww, rt) ==
  /\ st[d] = "live"
  /\ LET ok == ~(indexed /\ Clash(d, uu, ww)) IN
     /\ u' = IF ok THEN [u EXCEPT ![d] = uu] ELSE u
     /\ w' = IF ok THEN [w EXCEPT ![d] = ww] ELSE w
     /\ UNCHANGED <<st, indexed>>
     /\ Log([E("update") EXCEPT !.d = d, !.u = uu, !.w = ww, !.route = rt, !.res = IF ok THEN "ok" ELSE "refused"])
\* one request that sets the same value on every live document (a filtered update): all or nothing
UpdateAll(uu) ==
  /\ Cardinality(Live) >= 1
  /\ LET ok == ~indexed \/ uu = NULL \/ Cardinality(Live) <= 1 \/ (Composite /\ \A d, e \in Live : d # e => (w[d] # w[e] \/ w[d] = NULL)) IN
     /\ u' = IF ok THEN [d \in Docs |-> IF d \in Live THEN uu ELSE u[d]] ELSE u
     /\ UNCHANGED <<st, w, indexed>>
     /\ Log([E("updateall") EXCEPT !.u = uu, !.res = IF ok THEN "ok" ELSE "refused"])
Delete(d) ==
  /\ st[d] = "live" /\ st' = [st EXCEPT ![d] = "deleted"]
  /\ UNCHANGED <<u, w, indexed>> /\ Log([E("delete") EXCEPT !.d = d])
CreateIndex ==
  /\ ~indexed
  /\ indexed' = NoDuplicates
  /\ UNCHANGED <<st, u, w>> /\ Log([E("createindex") EXCEPT !.res = IF NoDuplicates THEN "ok" ELSE "refused"])

Next == /\ steps < MaxSteps
        /\ \/ \E d \in Docs, uu \in AllVals, ww \in AllVals : Create(d, uu, ww) \/ (\E rt \in Routes : Update(d, uu, ww, rt))
           \/ \E uu \in AllVals : UpdateAll(uu)
           \/ \E d \in Docs : Delete(d)
           \/ CreateIndex
Spec == Init /\ [][Next]_vars

\* the guarantee
UniqueWhileIndexed == indexed => NoDuplicates
\* exactly the writes that would break it are rejected: a refused step changes nothing
RefusedChangesNothing == [][(hist' # hist /\ hist'[Len(hist')].res = "refused") => (st' = st /\ u' = u /\ w' = w /\ indexed' = indexed)]_vars
=============================================================================
