--------------------------------- MODULE Crypto ---------------------------------
(***************************************************************************)
(* Symbolic model of document encryption (C11) and commit signatures (C12).*)
(*                                                                         *)
(* C11.  A document is created with mode "none", "doc" (whole document) or *)
(* a set of encrypted fields.  Every write of a field produces a field     *)
(* block whose payload is Plain(token) or Enc(token).  RULE "specified":   *)
(* a block of field f is encrypted iff the document's mode covers f.       *)
(* RULE "coded" (internal/core/block/store.go determineBlockEncryption):   *)
(* a block is encrypted iff this write is the creation and the mode covers *)
(* f, or the previous head block of the same field is encrypted - so a     *)
(* field first written by an update has nothing to inherit from.           *)
(* NoPlainSecret holds for "specified" and is refuted for "coded"; the     *)
(* behaviours are replayed on the real node and judged by "specified".     *)
(*                                                                         *)
(* C12.  sig(k, c) is the signature of content c under key k; verification *)
(* with public key k' succeeds iff the block carries a signature, it was   *)
(* made with k' over exactly the block's content.  A receiver accepts a    *)
(* block iff it is unsigned or verifies.  Tamper kinds enumerate every     *)
(* component of a signed block and of its signature block.                 *)
(***************************************************************************)
EXTENDS Integers, Sequences, FiniteSets, TLC

CONSTANTS Fields,      \* e.g. {"a","b","c"}
          MaxUpdates,
          MaxPeer,     \* writes by a peer that holds no key (0: none)
          Rule         \* "specified" | "coded"

Modes == {"none", "doc"} \cup {"fields"}
VARIABLES mode, encf,   \* creation mode and (for mode "fields") the encrypted field set
          blocks,       \* sequence of [f, tok, enc] field blocks written so far (shared block store / update events)
          lastEnc,      \* lastEnc[f] = "nohead" | "enc" | "plain" | "mixed": encryption of the head block(s) of field f
                        \* ("mixed": two heads, an encrypted one of the owner and a clear one written by a key-less peer)
          created, nupd, npeer, tok, hist
vars == <<mode, encf, blocks, lastEnc, created, nupd, npeer, tok, hist>>
view == <<mode, encf, blocks, lastEnc, created, nupd, npeer, tok>>

Covered(f) == mode = "doc" \/ (mode = "fields" /\ f \in encf)
EncOnCreate(f) == Covered(f)
EncOnUpdate(f) == IF Rule = "specified" THEN Covered(f) ELSE lastEnc[f] \in {"enc", "mixed"}

Init == /\ mode = "none" /\ encf = {} /\ blocks = <<>> /\ lastEnc = [f \in Fields |-> "nohead"]
        /\ created = FALSE /\ nupd = 0 /\ npeer = 0 /\ tok = 0 /\ hist = <<>>

RECURSIVE WriteAll(_, _, _, _)
\* write the fields of sequence fs; returns [blocks, lastEnc, tok]
WriteAll(fs, acc, isCreate, t) ==
  IF fs = <<>> THEN acc
  ELSE LET f == Head(fs)
           e == IF isCreate THEN EncOnCreate(f) ELSE (IF Rule = "specified" THEN Covered(f) ELSE acc.lastEnc[f] \in {"enc", "mixed"})
       IN WriteAll(Tail(fs), [blocks |-> Append(acc.blocks, [f |-> f, tok |-> acc.tok + 1, enc |-> e]),
                              lastEnc |-> [acc.lastEnc EXCEPT ![f] = IF e THEN "enc" ELSE "plain"],
                              tok |-> acc.tok + 1], isCreate, t)
SeqOf(S) == CHOOSE s \in [1..Cardinality(S) -> S] : \A i, j \in 1..Cardinality(S) : i # j => s[i] # s[j]

Update(W) ==
  /\ created /\ nupd < MaxUpdates /\ W # {}
  /\ LET r == WriteAll(SeqOf(W), [blocks |-> blocks, lastEnc |-> lastEnc, tok |-> tok], FALSE, 0) IN
     /\ blocks' = r.blocks /\ lastEnc' = r.lastEnc /\ tok' = r.tok
  /\ nupd' = nupd + 1 /\ UNCHANGED <<mode, encf, created, npeer>>
  /\ hist' = Append(hist, [op |-> "update", mode |-> mode, encf |-> encf, w |-> W, conc |-> FALSE])

\* A peer that received the document but holds no key writes field f itself (in clear: it has nothing to encrypt with)
\* and the owner merges that write. The peer could not process the encrypted blocks of a covered field, so for it the
\* field has no head: its block has no parents and, once merged by the owner, stands NEXT TO the owner's encrypted head
\* ("mixed"). An uncovered field was readable for the peer: its block replaces the head. conc: the owner also updates f
\* on its own head before it merges. Whatever the heads look like, what the OWNER writes to a covered field
\* afterwards must be encrypted. (The peer's own value is not a secret of the owner and is not recorded in blocks.)
PeerWrite(f, conc) ==
  /\ created /\ npeer < MaxPeer /\ lastEnc[f] # "nohead"
  /\ LET own == IF conc THEN WriteAll(<<f>>, [blocks |-> blocks, lastEnc |-> lastEnc, tok |-> tok], FALSE, 0)
                ELSE [blocks |-> blocks, lastEnc |-> lastEnc, tok |-> tok] IN
     /\ blocks' = own.blocks /\ tok' = own.tok
     /\ lastEnc' = [own.lastEnc EXCEPT ![f] = IF own.lastEnc[f] \in {"enc", "mixed"} THEN "mixed" ELSE "plain"]
  /\ npeer' = npeer + 1 /\ UNCHANGED <<mode, encf, created, nupd>>
  /\ hist' = Append(hist, [op |-> "peerwrite", mode |-> mode, encf |-> encf, w |-> {f}, conc |-> conc])

\* creation is split so that the mode is in place when the fields are written
SetMode(m, ef) == /\ ~created /\ mode = "none" /\ blocks = <<>> /\ hist = <<>>
                  /\ mode' = m /\ encf' = ef /\ UNCHANGED <<blocks, lastEnc, created, nupd, npeer, tok>>
                  /\ hist' = <<[op |-> "mode", mode |-> m, encf |-> ef, w |-> {}, conc |-> FALSE]>>
CreateW(W) == /\ ~created /\ hist # <<>> /\ created' = TRUE
              /\ LET r == WriteAll(SeqOf(W), [blocks |-> blocks, lastEnc |-> lastEnc, tok |-> tok], TRUE, 0) IN
                 /\ blocks' = r.blocks /\ lastEnc' = r.lastEnc /\ tok' = r.tok
              /\ UNCHANGED <<mode, encf, nupd, npeer>>
              /\ hist' = Append(hist, [op |-> "create", mode |-> mode, encf |-> encf, w |-> W, conc |-> FALSE])
Next == \/ \E m \in {"none", "doc"} : SetMode(m, {})
        \/ \E ef \in (SUBSET Fields) \ {{}} : SetMode("fields", ef)
        \/ \E W \in SUBSET Fields : CreateW(W)
        \/ \E W \in SUBSET Fields : Update(W)
        \/ \E f \in Fields, conc \in BOOLEAN : PeerWrite(f, conc)
Spec == Init /\ [][Next]_vars

\* C11: no block of a covered field carries the plaintext
NoPlainSecret == \A i \in 1..Len(blocks) : Covered(blocks[i].f) => blocks[i].enc
\* non-vacuity companion: uncovered fields stay readable by everyone
PlainStaysPlain == \A i \in 1..Len(blocks) : ~Covered(blocks[i].f) => ~blocks[i].enc

-----------------------------------------------------------------------------
(* C12 (constant level): signing keys, contents, tampering *)
Keys == {"k1", "k2"}
TamperKinds == {"none", "delta-payload", "priority", "docID", "fieldName", "schemaVersion", "heads", "links", "enc-attached",
                "sig-value", "sig-identity", "sig-type", "sig-swapped", "sig-removed"}
\* where the tampered block sits in what is offered to the receiver: it is the pushed head itself, or the parent of an
\* (unsigned, hence acceptable by itself) head built on top of it - every block fetched during the sync is held to the rule
Positions == {"head", "parent"}
\* does the tampered block still verify under the author's key k (signature made with k over the original content)?
ContentChanged(t) == t \in {"delta-payload", "priority", "docID", "fieldName", "schemaVersion", "heads", "links", "enc-attached"}
SigChanged(t) == t \in {"sig-value", "sig-identity", "sig-type", "sig-swapped"}
Verifies(t, signer, verifier) == t \notin {"sig-removed"} /\ ~ContentChanged(t) /\ ~SigChanged(t) /\ signer = verifier
\* receiver rule: accept iff unsigned or the attached signature verifies (with the key named in the signature block)
Accepts(t) == t = "sig-removed" \/ (~ContentChanged(t) /\ ~SigChanged(t))
SigCases == {[tamper |-> t, pos |-> p, signer |-> s, verifier |-> v, verifies |-> Verifies(t, s, v), accepted |-> Accepts(t)]
             : t \in TamperKinds, p \in Positions, s \in Keys, v \in Keys}
OnlyAuthorKeyVerifies == \A c \in SigCases : c.verifies => c.signer = c.verifier /\ c.tamper = "none"
TamperedNeverAccepted == \A c \in SigCases : (ContentChanged(c.tamper) \/ SigChanged(c.tamper)) => ~c.accepted
ASSUME OnlyAuthorKeyVerifies /\ TamperedNeverAccepted
=============================================================================
