------------------------------ MODULE EventBus_gen ------------------------------
EXTENDS EventBus, Json, CSV, IOUtils
Export == CSVWrite("%1$s", <<ToJson(hist')>>, IOEnv.VERIF_OUT)
ExportLeaves == (steps' = MaxSteps) => Export
=============================================================================
