------------------------------- MODULE KeyOrder -------------------------------
(***************************************************************************)
(* Order and round trip of index keys (C17).                               *)
(*                                                                         *)
(* For every indexable kind a chain of named representative values in      *)
(* strictly increasing VALUE order (a chain element is a set of names      *)
(* denoting equal values, e.g. {-0, +0}).  The chains hold the boundary    *)
(* cases of each encoder: sign change, every length change of the varint,  *)
(* extreme and sub-normal floats, infinities, escape bytes 0x00 / 0xFF in  *)
(* strings, nanosecond differences in times.  null sorts below everything. *)
(*                                                                         *)
(* The module is a constant-level case table: TLC evaluates                *)
(*   Pairs  : all ordered pairs per kind x asc/desc with the expected sign *)
(*            of  compare(Encode(a), Encode(b))                            *)
(*   Tuples : composite keys <<a1,a2>> vs <<b1,b2>> over reduced chains,   *)
(*            every combination of per-component directions, expected sign *)
(*            = component-wise comparison, DESC reversed per component     *)
(* and writes them as JSON; the harness encodes the named values with the  *)
(* real encoder (internal/encoding, internal/keys) and compares.           *)
(***************************************************************************)
EXTENDS Integers, Sequences, FiniteSets, TLC, Json, IOUtils, SequencesExt

Null == <<{"null"}>>
IntChain == <<{"-9223372036854775808"}, {"-9223372036854775807"}, {"-72057594037927937"}, {"-72057594037927936"}, {"-72057594037927935"},
              {"-36028797018963969"}, {"-36028797018963968"}, {"-4294967297"}, {"-4294967296"}, {"-4294967295"},
              {"-2147483649"}, {"-2147483648"}, {"-65537"}, {"-65536"}, {"-65535"}, {"-32769"}, {"-32768"},
              {"-257"}, {"-256"}, {"-255"}, {"-129"}, {"-128"}, {"-127"}, {"-2"}, {"-1"}, {"0"}, {"1"}, {"2"},
              {"109"}, {"110"}, {"127"}, {"128"}, {"255"}, {"256"}, {"32767"}, {"32768"}, {"65535"}, {"65536"},
              {"2147483647"}, {"2147483648"}, {"4294967295"}, {"4294967296"}, {"36028797018963967"}, {"36028797018963968"},
              {"72057594037927935"}, {"72057594037927936"}, {"9223372036854775806"}, {"9223372036854775807"}>>
Float64Chain == <<{"-Inf"}, {"-MaxFloat64"}, {"-1e300"}, {"-2"}, {"-1.0000000000000002"}, {"-1"}, {"-0.5"}, {"-SmallestNormal"},
                  {"-SmallestNonzero"}, {"-0", "+0"}, {"SmallestNonzero"}, {"SmallestNormal"}, {"0.5"}, {"1"}, {"1.0000000000000002"},
                  {"2"}, {"1e300"}, {"MaxFloat64"}, {"+Inf"}>>
Float32Chain == <<{"-Inf"}, {"-MaxFloat32"}, {"-2"}, {"-1"}, {"-SmallestNonzero32"}, {"-0", "+0"}, {"SmallestNonzero32"}, {"1"},
                  {"1.0000001"}, {"2"}, {"MaxFloat32"}, {"+Inf"}>>
BoolChain == <<{"false"}, {"true"}>>
\* strings are written with \xNN escapes for the harness
StringChain == <<{""}, {"\\x00"}, {"\\x00\\x00"}, {"\\x00\\x01"}, {"\\x00\\xff"}, {"\\x01"}, {"A"}, {"a"}, {"a\\x00"}, {"a\\x00\\x00"}, {"a\\x00\\x01"},
                 {"a\\x00\\xff"}, {"a\\x01"}, {"aa"}, {"a\\xc3\\xa9"}, {"a\\xff"}, {"a\\xff\\x00"}, {"a\\xff\\xff"}, {"b"}, {"\\xff"}, {"\\xff\\x00"}, {"\\xff\\xff"}>>
TimeChain == <<{"1677-09-21T00:12:43.145224192Z"}, {"1969-12-31T23:59:59.999999999Z"}, {"1970-01-01T00:00:00Z"}, {"1970-01-01T00:00:00.000000001Z"},
               {"2001-02-03T04:05:06Z"}, {"2001-02-03T04:05:06.000000001Z"}, {"2001-02-03T04:05:06.000000002Z"}, {"2001-02-03T04:05:06.999999999Z"},
               {"2001-02-03T04:05:07Z"}, {"2262-04-11T23:47:16.854775807Z"}>>

Chains == [Int |-> IntChain, Float64 |-> Float64Chain, Float32 |-> Float32Chain, Bool |-> BoolChain, String |-> StringChain, DateTime |-> TimeChain]
Kinds == DOMAIN Chains
\* null is below every value of every kind
WithNull(kind) == Null \o Chains[kind]

Sign(x, y) == IF x < y THEN -1 ELSE IF x > y THEN 1 ELSE 0
Dir(s, desc) == IF desc THEN -s ELSE s

Pairs ==
  UNION { UNION { { [kind |-> k, a |-> na, b |-> nb, desc |-> d, expect |-> Dir(Sign(i, j), d)]
                    : na \in WithNull(k)[i], nb \in WithNull(k)[j], d \in BOOLEAN }
                  : i \in 1..Len(WithNull(k)), j \in 1..Len(WithNull(k)) }
          : k \in Kinds }

\* reduced chains for composite keys (positions chosen to keep the boundary cases)
Reduce(k) == LET c == WithNull(k)  n == Len(c) IN
             IF n <= 6 THEN c ELSE <<c[1], c[2], c[n \div 3], c[n \div 2], c[n \div 2 + 1], c[n - 1], c[n]>>
TupleKinds == {<<"String", "Int">>, <<"Int", "String">>, <<"Float64", "Bool">>, <<"DateTime", "Int">>, <<"String", "String">>, <<"Bool", "Float64">>}
LexSign(i1, j1, d1, i2, j2, d2) == IF Dir(Sign(i1, j1), d1) # 0 THEN Dir(Sign(i1, j1), d1) ELSE Dir(Sign(i2, j2), d2)
Pick(S) == CHOOSE x \in S : TRUE
Tuples ==
  UNION { LET c1 == Reduce(tk[1])  c2 == Reduce(tk[2]) IN
          { [k1 |-> tk[1], k2 |-> tk[2], a1 |-> Pick(c1[i1]), a2 |-> Pick(c2[i2]), b1 |-> Pick(c1[j1]), b2 |-> Pick(c2[j2]),
             d1 |-> d1, d2 |-> d2, expect |-> LexSign(i1, j1, d1, i2, j2, d2)]
            : i1 \in 1..Len(c1), j1 \in 1..Len(c1), i2 \in 1..Len(c2), j2 \in 1..Len(c2), d1 \in BOOLEAN, d2 \in BOOLEAN }
          : tk \in TupleKinds }

\* design-level sanity of the table itself (checked by TLC when the module is evaluated)
ASSUME \A k \in Kinds : \A i, j \in 1..Len(Chains[k]) : i # j => Chains[k][i] \cap Chains[k][j] = {}
ASSUME \A p \in Pairs : p.a = p.b => p.expect = 0
ASSUME /\ ndJsonSerialize(IOEnv.VERIF_OUT \o ".pairs", SetToSeq(Pairs))
       /\ ndJsonSerialize(IOEnv.VERIF_OUT \o ".tuples", SetToSeq(Tuples))
       /\ PrintT(<<"cases", Cardinality(Pairs), Cardinality(Tuples)>>)

VARIABLE dummy
Init == dummy = 0
Next == UNCHANGED dummy
Spec == Init /\ [][Next]_dummy
=============================================================================
