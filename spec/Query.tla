--------------------------------- MODULE Query ---------------------------------
(***************************************************************************)
(* Executable reference semantics of the documented DefraDB query language *)
(* (docs/website/references/query-specification: filtering, sorting and    *)
(* ordering, limiting and pagination, aggregate functions, grouping) over  *)
(* a flat collection  T { s: String  i: Int  b: Boolean }.                 *)
(*                                                                         *)
(* Values: strings are ranks into the sorted table Strs (so < on ranks is  *)
(* < on strings), integers are themselves, booleans 0/1, NULL is null.     *)
(* The oracle of C07/C08/C10:  Result(docs, q).                            *)
(***************************************************************************)
EXTENDS Integers, Sequences, FiniteSets, SequencesExt, FiniteSetsExt, TLC

NULL == -100
Strs == <<"", "a", "ab", "b", "ba">>                 \* sorted
StrVals == 1..Len(Strs)
IntVals == {-1, 0, 1, 2, 3}
\* a second integer field j holds boundary and extreme values; like strings they are ranks into a sorted table
\* (TLC integers are 32 bit), so j takes part in filters and ordering but not in arithmetic
JTab == <<"-9223372036854775807", "-5000000000000000000", "-257", "-256", "-1", "0", "1", "255", "256", "65535",
          "5000000000000000000", "9223372036854775807">>
JVals == 1..Len(JTab)
\* an array field a: [Int!], as ranks into a table of small arrays (never null; elements never null)
ATab == << <<>>, <<0>>, <<1>>, <<2>>, <<0, 1>>, <<1, 1>>, <<1, 2>>, <<2, 0, 1>> >>
AVals == 1..Len(ATab)
Elems(r) == {ATab[r][i] : i \in 1..Len(ATab[r])}
BoolVals == {0, 1}
FieldsOf == [s |-> StrVals, i |-> IntVals, b |-> BoolVals, j |-> JVals]
Fields == {"s", "i", "b", "j"}

\* _like patterns over Strs, by name; the set of ranks each one matches
\* (a lone "%" and patterns with inner wildcards other than one infix are not specified and not generated)
Patterns == <<"a%", "%b", "%a%", "b%", "%ab%", "ab", "%ba", "a%b">>
LikeSet(p) == CASE p = "a%" -> {2, 3} [] p = "%b" -> {3, 4} [] p = "%a%" -> {2, 3, 5}
                [] p = "b%" -> {4, 5} [] p = "%ab%" -> {3} [] p = "ab" -> {3} [] p = "%ba" -> {5} [] p = "a%b" -> {3}

-----------------------------------------------------------------------------
(* Filters.  AST:                                                           *)
(*   [t |-> "cmp",  f, op \in {_eq,_ne,_gt,_ge,_lt,_le}, v]                 *)
(*   [t |-> "in",   f, op \in {_in,_nin}, vs]                               *)
(*   [t |-> "like", f = "s", op \in {_like,_nlike}, p]                      *)
(*   [t |-> "arr",  f = "a", q \in {_any,_all,_none}, op, v]: the comparison *)
(*      holds for some / every / no element of the array                    *)
(*   [t |-> "and"/"or", args], [t |-> "not", arg], [t |-> "multi", args]    *)
(*   ("multi" = several fields in one filter object: implicit AND)          *)
Cmp(op, x, v) ==
  CASE op = "_eq" -> x = v
    [] op = "_ne" -> x # v
    [] op = "_gt" -> x # NULL /\ x > v
    [] op = "_ge" -> x # NULL /\ x >= v
    [] op = "_lt" -> x # NULL /\ x < v
    [] op = "_le" -> x # NULL /\ x <= v
ArrMatch(flt, E) == CASE flt.q = "_any"  -> \E e \in E : Cmp(flt.op, e, flt.v)
                       [] flt.q = "_all"  -> \A e \in E : Cmp(flt.op, e, flt.v)
                       [] flt.q = "_none" -> ~\E e \in E : Cmp(flt.op, e, flt.v)
RECURSIVE Match(_, _)
Match(flt, d) ==
  CASE flt.t = "true" -> TRUE
    [] flt.t = "cmp"  -> Cmp(flt.op, d[flt.f], flt.v)
    [] flt.t = "in"   -> IF flt.op = "_in" THEN d[flt.f] \in flt.vs ELSE d[flt.f] \notin flt.vs
    [] flt.t = "like" -> IF flt.op = "_like" THEN d.s # NULL /\ d.s \in LikeSet(flt.p)
                                             ELSE d.s = NULL \/ d.s \notin LikeSet(flt.p)
    [] flt.t = "arr"  -> ArrMatch(flt, Elems(d.a))
    [] flt.t \in {"and", "multi"} -> \A k \in 1..Len(flt.args) : Match(flt.args[k], d)
    [] flt.t = "or"   -> \E k \in 1..Len(flt.args) : Match(flt.args[k], d)
    [] flt.t = "not"  -> ~Match(flt.arg, d)
Filtered(docs, flt) == {d \in docs : Match(flt, d)}

-----------------------------------------------------------------------------
(* Ordering: lexicographic by the key list; null first ascending (last descending); ties are left to the *)
(* implementation (documented: broken by the document id), so results are compared as key sequences.    *)
KeyLess(x, y, desc) == IF desc THEN (y = NULL /\ x # NULL) \/ (x # NULL /\ y # NULL /\ x > y)
                               ELSE (x = NULL /\ y # NULL) \/ (x # NULL /\ y # NULL /\ x < y)
RECURSIVE LexLess(_, _, _)
LexLess(a, b, keys) ==
  IF keys = <<>> THEN FALSE
  ELSE LET k == Head(keys) IN
       IF KeyLess(a[k.f], b[k.f], k.desc) THEN TRUE
       ELSE IF KeyLess(b[k.f], a[k.f], k.desc) THEN FALSE
       ELSE LexLess(a, b, Tail(keys))
\* a sequence of the documents sorted by keys (ties by id, which only fixes the witness, not the verdict)
Sorted(S, keys) == SetToSortSeq(S, LAMBDA a, b : LexLess(a, b, keys) \/ (~LexLess(b, a, keys) /\ a.id < b.id))
KeyTuple(d, keys) == [k \in 1..Len(keys) |-> d[keys[k].f]]

Slice(seq, limit, offset) ==
  LET from == offset + 1
      to   == IF limit = 0 THEN Len(seq) ELSE Min({Len(seq), offset + limit})
  IN IF from > Len(seq) THEN <<>> ELSE SubSeq(seq, from, to)

-----------------------------------------------------------------------------
(* Aggregates over a set of documents and a field; nulls are skipped; avg = <<sum, count>>. *)
NonNull(S, f) == {d \in S : d[f] # NULL}
RECURSIVE SumF(_, _)
SumF(S, f) == IF S = {} THEN 0 ELSE LET d == CHOOSE x \in S : TRUE IN d[f] + SumF(S \ {d}, f)
Agg(fn, S, f) ==
  CASE fn = "_count" -> Cardinality(S)
    [] fn = "_sum"   -> SumF(NonNull(S, f), f)
    [] fn = "_avg"   -> <<SumF(NonNull(S, f), f), Cardinality(NonNull(S, f))>>
    [] fn = "_min"   -> IF NonNull(S, f) = {} THEN NULL ELSE Min({d[f] : d \in NonNull(S, f)})
    [] fn = "_max"   -> IF NonNull(S, f) = {} THEN NULL ELSE Max({d[f] : d \in NonNull(S, f)})

-----------------------------------------------------------------------------
(* A query program and its result.                                          *)
(*  q = [flt, order (seq of [f, desc]), limit (0 = none), offset,           *)
(*       kind \in {"list","agg","group"}, fn, af (aggregate field), gf,     *)
(*       gl, go (limit / offset of the _group window, 0 = none)]            *)
Result(docs, q) ==
  LET F == Filtered(docs, q.flt) IN
  CASE q.kind = "list" ->
         LET sl == Slice(Sorted(F, q.order), q.limit, q.offset) IN
         [n |-> Len(sl),
          keys |-> [k \in 1..Len(sl) |-> KeyTuple(sl[k], q.order)],
          ids |-> IF q.limit = 0 /\ q.offset = 0 THEN {d.id : d \in F} ELSE {},
          from |-> {d.id : d \in F}]
    [] q.kind = "agg" -> [value |-> Agg(q.fn, F, q.af), from |-> {d.id : d \in F}]
    [] q.kind = "group" ->
         LET Size(v) == Cardinality({d \in F : d[q.gf] = v})
             \* number of group members inside the window _group(limit: gl, offset: go)
             Win(n) == LET rest == IF n > q.go THEN n - q.go ELSE 0 IN IF q.gl = 0 THEN rest ELSE Min({q.gl, rest})
         IN [groups |-> {[key |-> v,
                          count |-> Size(v),
                          wcount |-> Win(Size(v)),
                          sum |-> SumF(NonNull({d \in F : d[q.gf] = v}, "i"), "i")] : v \in {d[q.gf] : d \in F}},
             from |-> {d.id : d \in F}]
=============================================================================
