------------------------------ MODULE KVTxn_gen ------------------------------
(* Schedule generation for the conformance drivers.  GenNext is Next restricted to schedules worth      *)
(* executing: mutations that the specification expects to succeed (plus duplicate creates and writes to *)
(* deleted documents, which must be refused), and every opened transaction is ended (commit or discard) *)
(* before the schedule is over.  The history of API calls of every complete schedule is exported.       *)
EXTENDS KVTxn, Json, CSV, IOUtils, FiniteSets

OpenT == {t \in Txns : tx[t].st = "open"}
MustClose == nops >= MaxOps - Cardinality(OpenT)
Interesting(s, r) == r = "ok" \/ s = Deleted          \* refused writes on deleted documents are kept
GenNext ==
  /\ nops < MaxOps
  /\ IF MustClose /\ OpenT # {}
     THEN \E t \in OpenT : Discard(t) \/ (\E r \in {"ok", "conflict"} : Commit(t, r))
     ELSE \/ \E t \in Txns : (Begin(t) /\ nops < MaxOps - 2) \/ Discard(t) \/ (\E r \in {"ok", "conflict"} : Commit(t, r))
          \/ \E t \in OpenT, d \in Docs, r \in Res :
               /\ Interesting(View(t)[d], r) \/ (r = "err" /\ View(t)[d] >= 0)
               /\ TCreate(t, d, r) \/ TDelete(t, d, r) \/ TTouch(t, d, r) \/ (\E v \in 1..MaxVal : TUpdate(t, d, v, r))
          \/ \E t \in OpenT : TQuery(t, Rows(View(t))) \/ TIds(t, Names(View(t))) \/ (\E d \in Docs : TGet(t, d, GetRes(View(t)[d])))
          \/ IIds(Names(db)) \/ (\E d \in Docs : IGet(d, GetRes(db[d])))
          \/ \E d \in Docs, r \in Res :
               /\ Interesting(db[d], r) \/ (r = "err" /\ db[d] >= 0)
               /\ ICreate(d, r, FALSE) \/ IDelete(d, r, FALSE) \/ ITouch(d, r, FALSE) \/ (\E v \in 1..MaxVal : IUpdate(d, v, r, FALSE))
          \/ IQuery(Rows(db))
          \/ \E s \in SubIds : (Subscribe(s) /\ Cardinality(subs) < 3) \/ (Unsubscribe(s) /\ Cardinality(subs) > 1)
GenSpec == Init /\ [][GenNext]_vars

Export == CSVWrite("%1$s", <<ToJson(hist')>>, IOEnv.VERIF_OUT)
ExportLeaves == (nops' = MaxOps) => Export
=============================================================================
