------------------------------ MODULE MergeQueue ------------------------------
(***************************************************************************)
(* The per-document merge queue of a node (internal/db/merge.go:           *)
(* mergeQueue.add / mergeQueue.done), the mechanism behind "incoming       *)
(* merges of one document are applied one at a time" (C16).                *)
(*                                                                         *)
(*   add(key):  lock; done, ok := keys[key]; if !ok { keys[key] = new chan }*)
(*              unlock; if ok { <-done; add(key) }        (re-check!)       *)
(*   done(key): lock; done, ok := keys[key]; if ok { delete(keys, key) }    *)
(*              unlock; if ok { close(done) }                               *)
(*                                                                         *)
(* Each process performs Rounds merges of some key.  Recheck = TRUE is the *)
(* code; Recheck = FALSE is the plausible simplification "after the wait   *)
(* the key is mine" (several waiters are woken by one close and all        *)
(* proceed), which TLC refutes.  The conformance side is the mutex mode of *)
(* trace/Trace_Concurrent.tla: the marks recorded by the real goroutines   *)
(* at merge.begin / merge.end must never nest for one document.            *)
(***************************************************************************)
EXTENDS Integers, FiniteSets, TLC

CONSTANTS Procs, Keys, Rounds, Recheck

VARIABLES pc,      \* pc[p] : "idle" | "locked" | "wait" | "crit" | "release" | "stop"
          want,    \* want[p] : the key p is merging
          held,    \* held[k] : 0 = no entry in the map, else the id of the entry's channel
          waitOn,  \* waitOn[p] : channel id p is blocked on
          closed,  \* set of closed channel ids
          nextCh, left
vars == <<pc, want, held, waitOn, closed, nextCh, left>>

Init == /\ pc = [p \in Procs |-> "idle"] /\ want = [p \in Procs |-> CHOOSE k \in Keys : TRUE]
        /\ held = [k \in Keys |-> 0] /\ waitOn = [p \in Procs |-> 0] /\ closed = {} /\ nextCh = 1
        /\ left = [p \in Procs |-> Rounds]

\* a merge event for key k arrives at p's goroutine
Start(p, k) == /\ pc[p] = "idle" /\ left[p] > 0 /\ want' = [want EXCEPT ![p] = k]
               /\ pc' = [pc EXCEPT ![p] = "locked"] /\ left' = [left EXCEPT ![p] = @ - 1]
               /\ UNCHANGED <<held, waitOn, closed, nextCh>>
\* the critical section of add under the mutex: look the key up, claim it if free
Add(p) == /\ pc[p] = "locked"
          /\ IF held[want[p]] = 0
             THEN /\ held' = [held EXCEPT ![want[p]] = nextCh] /\ nextCh' = nextCh + 1
                  /\ pc' = [pc EXCEPT ![p] = "crit"] /\ UNCHANGED waitOn
             ELSE /\ waitOn' = [waitOn EXCEPT ![p] = held[want[p]]] /\ pc' = [pc EXCEPT ![p] = "wait"]
                  /\ UNCHANGED <<held, nextCh>>
          /\ UNCHANGED <<want, closed, left>>
\* <-done returns once the holder closed the channel; then add(key) again - or, without the re-check, take the key
Wake(p) == /\ pc[p] = "wait" /\ waitOn[p] \in closed
           /\ IF Recheck THEN pc' = [pc EXCEPT ![p] = "locked"] /\ UNCHANGED <<held, nextCh>>
              ELSE /\ held' = [held EXCEPT ![want[p]] = nextCh] /\ nextCh' = nextCh + 1
                   /\ pc' = [pc EXCEPT ![p] = "crit"]
           /\ waitOn' = [waitOn EXCEPT ![p] = 0] /\ UNCHANGED <<want, closed, left>>
\* executeMerge finished; done(key): delete the entry under the mutex, then close its channel
Release(p) == /\ pc[p] = "crit" /\ pc' = [pc EXCEPT ![p] = "release"]
              /\ UNCHANGED <<want, held, waitOn, closed, nextCh, left>>
Done(p) == /\ pc[p] = "release"
           /\ IF held[want[p]] # 0
              THEN closed' = closed \cup {held[want[p]]} /\ held' = [held EXCEPT ![want[p]] = 0]
              ELSE UNCHANGED <<closed, held>>
           /\ pc' = [pc EXCEPT ![p] = "idle"] /\ UNCHANGED <<want, waitOn, nextCh, left>>

Next == \E p \in Procs : (\E k \in Keys : Start(p, k)) \/ Add(p) \/ Wake(p) \/ Release(p) \/ Done(p)
Spec == Init /\ [][Next]_vars /\ WF_vars(Next)

InCrit(k) == {p \in Procs : pc[p] \in {"crit", "release"} /\ want[p] = k}
MutualExclusion == \A k \in Keys : Cardinality(InCrit(k)) <= 1
\* nobody waits on a key that nobody holds and whose channel will never be closed
NoLostWakeup == \A p \in Procs : pc[p] = "wait" => (waitOn[p] \in closed \/ \E q \in Procs : pc[q] \in {"crit", "release"} /\ held[want[q]] = waitOn[p])
\* all work gets done
Finished == \A p \in Procs : pc[p] = "idle" /\ left[p] = 0
EventuallyFinished == <>Finished
=============================================================================
