SPECIFICATION Spec
CONSTANTS
  Nodes = {1,2,3}
  MaxC = 4
  Ctrs = {"k"}
  Regs = {"r"}
  Vals = {0,1,2}
  Incs = {1}
  Variant = "repaired"
  NullTieFails = FALSE
  MaxDeliver = 0
VIEW view
INVARIANTS TypeOK Converge MergeNeverFails RefCtr RefReg RefRegLWW RefDel Closed HeightRule RefHeads RefFHeads ParentsOlder LWWIsCausal
PROPERTIES NoResurrection MrgGrows
CHECK_DEADLOCK FALSE
