------------------------------- MODULE QueryLaws -------------------------------
(***************************************************************************)
(* Algebraic laws of the reference query semantics (Query.tla), checked    *)
(* exhaustively by TLC over every collection of up to three documents with *)
(* small field domains.  The reference semantics is the oracle of C07, C08 *)
(* and C10: an error in it would make the conformance runs accept wrong    *)
(* answers (or reject right ones), so the semantics itself is model        *)
(* checked: each initial state is one collection, every invariant          *)
(* quantifies over a family of filters / orderings / windows.              *)
(***************************************************************************)
EXTENDS Query

CONSTANTS Ids, SDom, IDom          \* document slots, values of s and i (incl. NULL)

SDomSmall == {NULL, 1, 2}
IDomSmall == {NULL, -1, 1}
SDomMid == {NULL, 1, 2, 3}
IDomMid == {NULL, -1, 1, 2}
SDomAll == {NULL} \cup StrVals
IDomAll == {NULL} \cup IntVals

\* a deliberately wrong comparison (null ordered below every value, as a plain integer comparison on the encoding
\* would do); substituted for Cmp in a run that must be refuted, to show that the laws are not vacuous
CmpBroken(op, x, v) ==
  CASE op = "_eq" -> x = v [] op = "_ne" -> x # v
    [] op = "_gt" -> x # NULL /\ x > v [] op = "_ge" -> x # NULL /\ x >= v
    [] op = "_lt" -> x < v [] op = "_le" -> x <= v

VARIABLES docs
lvars == <<docs>>

DocU == [id : Ids, s : SDom, i : IDom, b : {NULL, 0, 1}, j : {NULL}, a : {1, 5, 8}]
ArrOf(id) == CASE id = 1 -> 1 [] id = 2 -> 5 [] OTHER -> 8       \* the array is fixed by the id: <<>>, <<0,1>>, <<2,0,1>>
\* one document per id at most, b fixed by the id to keep the space small

\* collections are built one document at a time (ascending ids) so that TLC's workers share the enumeration
LInit == docs = {}
MaxId(S) == IF S = {} THEN 0 ELSE Max({d.id : d \in S})
LNext == \E d \in DocU : /\ d.id > MaxId(docs) /\ d.b = (IF d.id = 1 THEN NULL ELSE d.id % 2) /\ d.a = ArrOf(d.id)
                          /\ docs' = docs \cup {d}
LSpec == LInit /\ [][LNext]_lvars

Ops == {"_eq", "_ne", "_gt", "_ge", "_lt", "_le"}
Atoms == {[t |-> "cmp", f |-> "s", op |-> o, v |-> v] : o \in Ops, v \in SDom \ {NULL}}
         \cup {[t |-> "cmp", f |-> "i", op |-> o, v |-> v] : o \in Ops, v \in IDom \ {NULL}}
         \cup {[t |-> "cmp", f |-> f, op |-> o, v |-> NULL] : f \in {"s", "i"}, o \in {"_eq", "_ne"}}
         \cup {[t |-> "like", f |-> "s", op |-> o, p |-> p] : o \in {"_like", "_nlike"}, p \in {"a%", "%b"}}
Not(a) == [t |-> "not", arg |-> a]
And(a, b) == [t |-> "and", args |-> <<a, b>>]
Or(a, b) == [t |-> "or", args |-> <<a, b>>]
F(a) == Filtered(docs, a)

\* _not partitions; _and / _or are intersection / union; De Morgan; "multi" is _and
Boolean ==
  \A a, b \in Atoms :
    /\ F(Not(a)) = docs \ F(a)
    /\ F(And(a, b)) = F(a) \cap F(b)
    /\ F(Or(a, b)) = F(a) \cup F(b)
    /\ F(Not(And(a, b))) = F(Or(Not(a), Not(b)))
    /\ F([t |-> "multi", args |-> <<a, b>>]) = F(And(a, b))
\* comparison operators against a non-null operand: null never matches an ordering comparison, _ne is the complement of _eq
Comparisons ==
  \A f \in {"s", "i"} : \A v \in (IF f = "s" THEN SDom ELSE IDom) \ {NULL} :
    LET C(o) == F([t |-> "cmp", f |-> f, op |-> o, v |-> v])
        NN == {d \in docs : d[f] # NULL} IN
    /\ C("_ne") = docs \ C("_eq")
    /\ C("_ge") = C("_gt") \cup C("_eq")
    /\ C("_le") = C("_lt") \cup C("_eq")
    /\ C("_lt") = NN \ C("_ge")
    /\ C("_gt") \cap C("_lt") = {}
\* membership is a disjunction of equalities (null may be a member)
Membership ==
  \A f \in {"s", "i"} : \A vs \in SUBSET (IF f = "s" THEN SDom ELSE IDom) :
    LET In == F([t |-> "in", f |-> f, op |-> "_in", vs |-> vs]) IN
    /\ In = UNION {F([t |-> "cmp", f |-> f, op |-> "_eq", v |-> v]) : v \in vs}
    /\ F([t |-> "in", f |-> f, op |-> "_nin", vs |-> vs]) = docs \ In
    /\ F([t |-> "like", f |-> "s", op |-> "_nlike", p |-> "a%"]) = docs \ F([t |-> "like", f |-> "s", op |-> "_like", p |-> "a%"])

\* array quantifiers: _none is the complement of _any, _all is _none of the negated comparison, an empty array satisfies _all
NegOp(o) == CASE o = "_eq" -> "_ne" [] o = "_ne" -> "_eq" [] o = "_gt" -> "_le" [] o = "_le" -> "_gt" [] o = "_lt" -> "_ge" [] o = "_ge" -> "_lt"
Arrays ==
  \A o \in Ops, v \in 0..2 :
    LET A(q, op) == F([t |-> "arr", f |-> "a", q |-> q, op |-> op, v |-> v]) IN
    /\ A("_none", o) = docs \ A("_any", o)
    /\ A("_all", o) = A("_none", NegOp(o))
    /\ {d \in docs : Elems(d.a) = {}} \subseteq A("_all", o)
    /\ A("_any", o) \subseteq {d \in docs : Elems(d.a) # {}}

Keys == {<<[f |-> "s", desc |-> FALSE]>>, <<[f |-> "i", desc |-> TRUE]>>,
         <<[f |-> "s", desc |-> TRUE], [f |-> "i", desc |-> FALSE]>>, <<[f |-> "b", desc |-> FALSE], [f |-> "s", desc |-> FALSE]>>}
\* the sorted sequence is a permutation of the set, ordered by the keys; reversing every direction reverses the key sequence
Ordering ==
  \A ks \in Keys :
    LET sq == Sorted(docs, ks)
        rev == [k \in 1..Len(ks) |-> [f |-> ks[k].f, desc |-> ~ks[k].desc]]
        rq == Sorted(docs, rev) IN
    /\ Len(sq) = Cardinality(docs) /\ ToSet(sq) = docs
    /\ \A k \in 1..(Len(sq) - 1) : ~LexLess(sq[k + 1], sq[k], ks)
    /\ \A k \in 1..Len(sq) : KeyTuple(sq[k], ks) = KeyTuple(rq[Len(sq) + 1 - k], ks)
\* limit / offset cut a slice: pages tile the sequence
Paging ==
  LET sq == Sorted(docs, <<[f |-> "s", desc |-> FALSE]>>)
      Prefix(n) == IF n = 0 THEN <<>> ELSE Slice(sq, n, 0) IN      \* (limit 0 means no limit)
  \A l \in 0..3, o \in 0..4 :
    /\ Len(Slice(sq, l, o)) = (LET rest == IF Len(sq) > o THEN Len(sq) - o ELSE 0 IN IF l = 0 THEN rest ELSE Min({l, rest}))
    /\ l > 0 => Prefix(o) \o Slice(sq, l, o) = Prefix(o + l)
    /\ l > 0 => Slice(sq, 0, o) = Slice(sq, l, o) \o Slice(sq, 0, o + l)
    /\ Prefix(o) \o Slice(sq, 0, o) = sq
\* aggregates: arithmetic over the listed values; groups partition the filtered set; the group window never exceeds the group
Aggregates ==
  LET cnt == Agg("_count", docs, "i")
      nn == Cardinality(NonNull(docs, "i"))
      avg == Agg("_avg", docs, "i")
      R(gf, gl, go) == Result(docs, [flt |-> [t |-> "true"], kind |-> "group", gf |-> gf, gl |-> gl, go |-> go]).groups IN
  /\ cnt = Cardinality(docs) /\ avg = <<Agg("_sum", docs, "i"), nn>>
  /\ nn > 0 => /\ Agg("_min", docs, "i") * nn <= Agg("_sum", docs, "i")
               /\ Agg("_sum", docs, "i") <= Agg("_max", docs, "i") * nn
  /\ nn = 0 => Agg("_min", docs, "i") = NULL /\ Agg("_max", docs, "i") = NULL /\ Agg("_sum", docs, "i") = 0
  /\ \A gf \in {"s", "i", "b"} : \A gl \in 0..2, go \in 0..2 :
       LET G == R(gf, gl, go) IN
       /\ SumF({[id |-> g.key, i |-> g.count] : g \in G}, "i") = cnt
       /\ SumF({[id |-> g.key, i |-> g.sum] : g \in G}, "i") = Agg("_sum", docs, "i")
       /\ \A g \in G : g.wcount <= g.count /\ (gl > 0 => g.wcount <= gl) /\ (gl = 0 /\ go = 0 => g.wcount = g.count)
=============================================================================
