-------------------------------- MODULE EventBus --------------------------------
(***************************************************************************)
(* The event bus of a node (event/channel_bus.go): every command -          *)
(* subscribe, unsubscribe, publish, close - goes through ONE channel and is *)
(* handled by one goroutine, so the bus behaves like a sequential object    *)
(* in command order.  The notification clauses of C20 and the merge path    *)
(* of C16 rest on it.                                                       *)
(*                                                                         *)
(*   Subscribe(s, N)  s receives from now on every message whose name is    *)
(*                    in N, or every message if "*" is in N (once, also     *)
(*                    when the name is in N as well)                        *)
(*   Unsubscribe(s)   s's channel is closed; nothing is delivered to it     *)
(*                    any more (a second Unsubscribe does nothing)          *)
(*   Publish(n)       appended to the channel of every current subscriber   *)
(*                    of n, in command order                                *)
(*   Close            every channel is closed; later commands do nothing    *)
(*                    and Subscribe reports an error                        *)
(* got[s] is what subscriber s has received; closed[s] whether its channel  *)
(* is closed.  The harness executes generated command sequences on a real   *)
(* channelBus and compares got / closed after every command (a fence        *)
(* message to a dedicated subscriber tells when a command has been          *)
(* handled).                                                                *)
(***************************************************************************)
EXTENDS Integers, Sequences, FiniteSets, TLC

CONSTANTS Subs, Names, MaxSteps
Wild == "*"

VARIABLES names,   \* names[s] : set of names s is subscribed to ({} = not subscribed)
          got,     \* got[s] : sequence of message ids received
          closed,  \* closed[s]
          used,    \* subscribers that have subscribed once (a channelSub is not reused)
          busClosed, nmsg, steps, hist
vars == <<names, got, closed, used, busClosed, nmsg, steps, hist>>
view == <<names, got, closed, used, busClosed, nmsg, steps>>

Init == /\ names = [s \in Subs |-> {}] /\ got = [s \in Subs |-> <<>>] /\ closed = [s \in Subs |-> FALSE]
        /\ used = {} /\ busClosed = FALSE /\ nmsg = 0 /\ steps = 0 /\ hist = <<>>

Obs == [got |-> got, closed |-> closed]
Log(e) == hist' = Append(hist, [e EXCEPT !.obs = Obs']) /\ steps' = steps + 1
E(op) == [op |-> op, s |-> "", ns |-> {}, n |-> "", id |-> 0, res |-> "ok", obs |-> <<>>]

Subscribe(s, N) ==
  /\ s \notin used /\ N # {}
  /\ UNCHANGED <<got, closed, busClosed, nmsg>>
  /\ IF busClosed
     THEN UNCHANGED <<names, used>> /\ Log([E("subscribe") EXCEPT !.s = s, !.ns = N, !.res = "error"])
     ELSE names' = [names EXCEPT ![s] = N] /\ used' = used \cup {s} /\ Log([E("subscribe") EXCEPT !.s = s, !.ns = N])
Unsubscribe(s) ==
  /\ s \in used
  /\ UNCHANGED <<got, used, busClosed, nmsg>>
  /\ IF busClosed \/ names[s] = {}
     THEN UNCHANGED <<names, closed>>
     ELSE names' = [names EXCEPT ![s] = {}] /\ closed' = [closed EXCEPT ![s] = TRUE]
  /\ Log([E("unsubscribe") EXCEPT !.s = s])
Receives(s, n) == n \in names[s] \/ Wild \in names[s]
Publish(n) ==
  /\ nmsg' = nmsg + 1
  /\ got' = IF busClosed THEN got ELSE [s \in Subs |-> IF Receives(s, n) THEN Append(got[s], nmsg + 1) ELSE got[s]]
  /\ UNCHANGED <<names, closed, used, busClosed>> /\ Log([E("publish") EXCEPT !.n = n, !.id = nmsg + 1])
Close ==
  /\ ~busClosed /\ busClosed' = TRUE
  /\ closed' = [s \in Subs |-> closed[s] \/ names[s] # {}]
  /\ names' = [s \in Subs |-> {}]
  /\ UNCHANGED <<got, used, nmsg>> /\ Log(E("close"))

Next == /\ steps < MaxSteps
        /\ \/ \E s \in Subs, N \in (SUBSET (Names \cup {Wild})) \ {{}} : Subscribe(s, N)
           \/ \E s \in Subs : Unsubscribe(s)
           \/ \E n \in Names : Publish(n)
           \/ Close
Spec == Init /\ [][Next]_vars

\* per subscriber: messages arrive in publication order, each at most once
Fifo == \A s \in Subs : \A i, j \in 1..Len(got[s]) : i < j => got[s][i] < got[s][j]
\* a closed channel receives nothing any more
NothingAfterClose == [][\A s \in Subs : closed[s] => got'[s] = got[s]]_vars
\* a message reaches exactly the subscribers of its name at that moment
ExactFanOut == [][(nmsg' = nmsg + 1 /\ ~busClosed) =>
                   \A s \in Subs : (Len(got'[s]) = Len(got[s]) + 1) <=> (names[s] # {} /\ \E n \in Names : hist'[Len(hist')].n = n /\ Receives(s, n))]_vars
=============================================================================
