---------------------------- MODULE ReplConfig_gen ----------------------------
EXTENDS ReplConfig, Json, CSV, IOUtils
Export == CSVWrite("%1$s", <<ToJson(hist')>>, IOEnv.VERIF_OUT)
ExportLeaves == (steps' = MaxSteps) => Export
\* histories worth a real run: a restart while the peers are configured for different, non-empty sets of collections,
\* followed by a write to a collection that exactly one of them receives
PeerSeq == CHOOSE s \in [1..Cardinality(Peers) -> Peers] : \A i, j \in 1..Cardinality(Peers) : i # j => s[i] # s[j]
Interesting(h) == \E i, j \in 1..Len(h) :
                    /\ i < j /\ h[i].op = "restart" /\ h[j].op = "write"
                    /\ \A p \in Peers : h[i].obs.cfg[p] # {}
                    /\ \E p, q \in Peers : h[i].obs.cfg[p] # h[i].obs.cfg[q]
                    /\ \E p, q \in Peers : h[j].col \in h[j].obs.cfg[p] /\ h[j].col \notin h[j].obs.cfg[q]
ExportInteresting == (steps' = MaxSteps /\ Interesting(hist')) => Export
=============================================================================
