---------------------------- MODULE ReplConfig_gen ----------------------------
EXTENDS ReplConfig, Json, CSV, IOUtils
Export == CSVWrite("%1$s", <<ToJson(hist')>>, IOEnv.VERIF_OUT)
ExportLeaves == (steps' = MaxSteps) => Export
\* histories worth a real run: at least one restart followed by a write
Interesting(h) == \E i, j \in 1..Len(h) : i < j /\ h[i].op = "restart" /\ h[j].op = "write"
ExportInteresting == (steps' = MaxSteps /\ Interesting(hist')) => Export
=============================================================================
