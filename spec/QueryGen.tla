------------------------------- MODULE QueryGen -------------------------------
(* Case generator for the query semantics (C08; also the query batches of C07 and C10): every step draws a  *)
(* document set and a query program (decoded from random integer codes, so that each random draw is made    *)
(* exactly once) and exports  [docs, q, expect |-> Result(docs, q)]  as one JSON line.                      *)
EXTENDS Query, Json, CSV, IOUtils

CONSTANTS NDocs       \* documents per case

VARIABLES step, case
gvars == <<step, case>>

D(c, b) == c % b
R(c, b) == c \div b
SVals == <<NULL, 1, 2, 3, 4, 5>>
IVals == <<NULL, -1, 0, 1, 2, 3>>
BVals == <<NULL, 0, 1>>
JAll == <<NULL, 1, 2, 3, 4, 5, 6, 7, 8, 9, 10, 11, 12>>
JLit == <<NULL, 3, 4, 5, 6, 7, 8, 9, 10>>        \* operands that fit a GraphQL Int literal
DocFrom(id, c) == [id |-> id, s |-> SVals[D(c, 6) + 1], i |-> IVals[D(R(c, 6), 6) + 1], b |-> BVals[D(R(c, 36), 3) + 1],
                   j |-> JAll[D(R(c, 108), 13) + 1], a |-> D(R(c, 1404), 8) + 1]
ValSeq(f) == CASE f = "s" -> SVals [] f = "i" -> IVals [] f = "b" -> BVals [] f = "j" -> JLit
FName(k) == <<"s", "i", "b", "j">>[k + 1]
CmpOps == <<"_eq", "_ne", "_gt", "_ge", "_lt", "_le">>

FNameA(k) == <<"s", "i", "b", "j", "a", "a">>[k + 1]
ArrQ == <<"_any", "_all", "_none">>
AtomFrom(c) ==
  IF FNameA(D(c, 6)) = "a"
  THEN LET c1 == R(c, 6) IN
       [t |-> "arr", f |-> "a", q |-> ArrQ[D(c1, 3) + 1], op |-> CmpOps[D(R(c1, 3), 6) + 1], v |-> D(R(c1, 18), 3)]
  ELSE
  LET f  == FNameA(D(c, 6))
      c1 == R(c, 6)
      vs == ValSeq(f)
      n  == Len(vs)
      k  == D(c1, 10)
      c2 == R(c1, 10)
  IN IF k <= 5 /\ (f \in {"i", "j"} \/ k <= 1)   \* < <= > >= are defined for numbers only
     THEN IF k <= 1 THEN [t |-> "cmp", f |-> f, op |-> CmpOps[k + 1], v |-> vs[D(c2, n) + 1]]
                    ELSE [t |-> "cmp", f |-> f, op |-> CmpOps[k + 1], v |-> vs[D(c2, n - 1) + 2]]   \* no null operand for < <= > >=
     ELSE IF k \in {6, 7} \/ (f = "b" /\ k <= 7) \/ (f = "s" /\ k \in {2, 3}) \/ (f \in {"i", "j"} /\ k = 8)
     THEN [t |-> "in", f |-> f, op |-> IF k % 2 = 0 THEN "_in" ELSE "_nin",
           vs |-> {vs[j] : j \in {x \in 1..n : D(R(c2, 2 ^ (x - 1)), 2) = 1}}]
     ELSE IF f = "s"
     THEN [t |-> "like", f |-> "s", op |-> IF k = 8 THEN "_like" ELSE "_nlike", p |-> Patterns[D(c2, Len(Patterns)) + 1]]
     ELSE [t |-> "cmp", f |-> f, op |-> "_eq", v |-> vs[D(c2, n) + 1]]

FilterFrom(sh, a1, a2, a3) ==
  CASE sh = 0 -> [t |-> "true"]
    [] sh \in {1, 2, 3} -> AtomFrom(a1)
    [] sh = 4 -> [t |-> "and", args |-> <<AtomFrom(a1), AtomFrom(a2)>>]
    [] sh = 5 -> [t |-> "or", args |-> <<AtomFrom(a1), AtomFrom(a2)>>]
    [] sh = 6 -> [t |-> "not", arg |-> AtomFrom(a1)]
    [] sh = 7 -> IF AtomFrom(a1).f # AtomFrom(a2).f THEN [t |-> "multi", args |-> <<AtomFrom(a1), AtomFrom(a2)>>] ELSE AtomFrom(a1)
    [] sh = 8 -> [t |-> "and", args |-> <<[t |-> "or", args |-> <<AtomFrom(a1), AtomFrom(a2)>>], [t |-> "not", arg |-> AtomFrom(a3)]>>]
    [] sh = 9 -> [t |-> "or", args |-> <<[t |-> "and", args |-> <<AtomFrom(a1), AtomFrom(a2)>>], AtomFrom(a3)>>]
    [] sh = 10 -> [t |-> "not", arg |-> [t |-> "or", args |-> <<AtomFrom(a1), AtomFrom(a2)>>]]
    [] sh = 11 -> [t |-> "or", args |-> <<AtomFrom(a1), AtomFrom(a2), AtomFrom(a3)>>]
    \* sh 12, 13: a membership filter with several values on a numeric field (always ordered by that field, see QueryFrom):
    \* the shape in which an index on the field serves the filter and the order at once
    [] sh \in {12, 13} -> LET f == IF D(a1, 2) = 0 THEN "i" ELSE "j"
                              vs == ValSeq(f)
                              drop == D(R(a1, 2), Len(vs)) + 1 IN
                          [t |-> "in", f |-> f, op |-> "_in", vs |-> {vs[x] : x \in (1..Len(vs)) \ {drop, 1 + D(R(a1, 64), Len(vs))}}]

OrderFrom(c) ==
  LET nk == D(c, 4)                           \* 0, 1, 2, 2 keys
      f1 == FName(D(R(c, 4), 4))     d1 == D(R(c, 16), 2) = 1
      f2 == FName(D(R(c, 32), 4))    d2 == D(R(c, 128), 2) = 1
  IN IF nk = 0 THEN <<>>
     ELSE IF nk = 1 \/ f1 = f2 THEN <<[f |-> f1, desc |-> d1]>>
     ELSE <<[f |-> f1, desc |-> d1], [f |-> f2, desc |-> d2]>>

\* one case in four of those whose filter is a single condition on a scalar field is ordered by that very field (the
\* shape in which one index can serve the filter and the order at once)
OrderFor(flt, oc) ==
  IF (D(R(oc, 256), 4) = 0 \/ (flt.t = "in" /\ D(R(oc, 256), 2) = 0)) /\ flt.t \in {"cmp", "in"} /\ flt.f \in {"s", "i", "b", "j"}
  THEN <<[f |-> flt.f, desc |-> D(R(oc, 16), 2) = 1]>>
  ELSE OrderFrom(oc)
QueryFrom(kc, sh, a1, a2, a3, oc, lc) ==
  LET flt == FilterFrom(sh, a1, a2, a3) IN
  IF kc <= 5 THEN [kind |-> "list", flt |-> flt, order |-> (IF sh >= 12 THEN <<[f |-> flt.f, desc |-> D(R(oc, 16), 2) = 1]>> ELSE OrderFor(flt, oc)), limit |-> D(lc, 4), offset |-> D(R(lc, 4), 3),
                   fn |-> "", af |-> "", gf |-> "", gl |-> 0, go |-> 0]
  ELSE IF kc <= 8 THEN [kind |-> "agg", flt |-> flt, order |-> <<>>, limit |-> 0, offset |-> 0,
                        fn |-> <<"_count", "_sum", "_avg", "_min", "_max">>[D(oc, 5) + 1], af |-> "i", gf |-> "", gl |-> 0, go |-> 0]
  ELSE [kind |-> "group", flt |-> flt, order |-> <<>>, limit |-> 0, offset |-> 0, fn |-> "", af |-> "", gf |-> FName(D(oc, 4)),
        gl |-> D(lc, 3), go |-> D(R(lc, 3), 4)]

Big == 1000000
\* state-level on purpose: TLC evaluates constant-level expressions once and would reuse the same "random" value
RE(n) == RandomElement(0..(n + step - step))
Init == step = 0 /\ case = <<>>
Next ==
  \E dc \in {[k \in 1..NDocs |-> RE(11231)]} :
  \E kc \in {RE(9)}, sh \in {RE(13)} :
  \E a1 \in {RE(Big)}, a2 \in {RE(Big)}, a3 \in {RE(Big)} :
  \E oc \in {RE(1023)}, lc \in {RE(11)} :
    LET docs == {DocFrom(k, dc[k]) : k \in 1..NDocs}
        q == QueryFrom(kc, sh, a1, a2, a3, oc, lc)
    IN /\ step' = step + 1
       /\ case' = [docs |-> [k \in 1..NDocs |-> DocFrom(k, dc[k])], q |-> q, expect |-> Result(docs, q)]
Spec == Init /\ [][Next]_gvars
Export == CSVWrite("%1$s", <<ToJson(case')>>, IOEnv.VERIF_OUT)
=============================================================================
