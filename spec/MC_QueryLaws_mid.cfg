SPECIFICATION LSpec
CONSTANTS Ids = {1,2,3} SDom <- SDomMid IDom <- IDomMid
INVARIANTS Boolean Comparisons Membership Arrays Ordering Paging Aggregates
CHECK_DEADLOCK FALSE
