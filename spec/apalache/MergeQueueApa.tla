------------------------------ MODULE MergeQueueApa ------------------------------
(***************************************************************************)
(* The per-document merge queue of a node (internal/db/merge.go:           *)
(* mergeQueue.add / mergeQueue.done), the mechanism behind "incoming       *)
(* merges of one document are applied one at a time" (C16).                *)
(*                                                                         *)
(*   add(key):  lock; done, ok := keys[key]; if !ok { keys[key] = new chan }*)
(*              unlock; if ok { <-done; add(key) }        (re-check!)       *)
(*   done(key): lock; done, ok := keys[key]; if ok { delete(keys, key) }    *)
(*              unlock; if ok { close(done) }                               *)
(*                                                                         *)
(* Each process performs Rounds merges of some key.  Recheck = TRUE is the *)
(* code; Recheck = FALSE is the plausible simplification "after the wait   *)
(* the key is mine" (several waiters are woken by one close and all        *)
(* proceed), which TLC refutes.  The conformance side is the mutex mode of *)
(* trace/Trace_Concurrent.tla: the marks recorded by the real goroutines   *)
(* at merge.begin / merge.end must never nest for one document.            *)
(***************************************************************************)
EXTENDS Integers, FiniteSets, TLC

CONSTANTS
  \* @type: Set(Int);
  Procs,
  \* @type: Set(Str);
  Keys,
  \* @type: Int;
  Rounds,
  \* @type: Bool;
  Recheck

VARIABLES
  \* @type: Int -> Str;
  pc,
  \* @type: Int -> Str;
  want,
  \* @type: Str -> Int;
  held,
  \* @type: Int -> Int;
  waitOn,
  \* @type: Set(Int);
  closed,
  \* @type: Int;
  nextCh,
  \* @type: Int -> Int;
  left
vars == <<pc, want, held, waitOn, closed, nextCh, left>>

Init == /\ pc = [p \in Procs |-> "idle"] /\ want = [p \in Procs |-> CHOOSE k \in Keys : TRUE]
        /\ held = [k \in Keys |-> 0] /\ waitOn = [p \in Procs |-> 0] /\ closed = {} /\ nextCh = 1
        /\ left = [p \in Procs |-> Rounds]

\* a merge event for key k arrives at p's goroutine
Start(p, k) == /\ pc[p] = "idle" /\ left[p] > 0 /\ want' = [want EXCEPT ![p] = k]
               /\ pc' = [pc EXCEPT ![p] = "locked"] /\ left' = [left EXCEPT ![p] = @ - 1]
               /\ UNCHANGED <<held, waitOn, closed, nextCh>>
\* the critical section of add under the mutex: look the key up, claim it if free
Add(p) == /\ pc[p] = "locked"
          /\ IF held[want[p]] = 0
             THEN /\ held' = [held EXCEPT ![want[p]] = nextCh] /\ nextCh' = nextCh + 1
                  /\ pc' = [pc EXCEPT ![p] = "crit"] /\ UNCHANGED waitOn
             ELSE /\ waitOn' = [waitOn EXCEPT ![p] = held[want[p]]] /\ pc' = [pc EXCEPT ![p] = "wait"]
                  /\ UNCHANGED <<held, nextCh>>
          /\ UNCHANGED <<want, closed, left>>
\* <-done returns once the holder closed the channel; then add(key) again - or, without the re-check, take the key
Wake(p) == /\ pc[p] = "wait" /\ waitOn[p] \in closed
           /\ IF Recheck THEN pc' = [pc EXCEPT ![p] = "locked"] /\ UNCHANGED <<held, nextCh>>
              ELSE /\ held' = [held EXCEPT ![want[p]] = nextCh] /\ nextCh' = nextCh + 1
                   /\ pc' = [pc EXCEPT ![p] = "crit"]
           /\ waitOn' = [waitOn EXCEPT ![p] = 0] /\ UNCHANGED <<want, closed, left>>
\* executeMerge finished; done(key): delete the entry under the mutex, then close its channel
Release(p) == /\ pc[p] = "crit" /\ pc' = [pc EXCEPT ![p] = "release"]
              /\ UNCHANGED <<want, held, waitOn, closed, nextCh, left>>
Done(p) == /\ pc[p] = "release"
           /\ IF held[want[p]] # 0
              THEN closed' = closed \cup {held[want[p]]} /\ held' = [held EXCEPT ![want[p]] = 0]
              ELSE UNCHANGED <<closed, held>>
           /\ pc' = [pc EXCEPT ![p] = "idle"] /\ UNCHANGED <<want, waitOn, nextCh, left>>

Next == \E p \in Procs : (\E k \in Keys : Start(p, k)) \/ Add(p) \/ Wake(p) \/ Release(p) \/ Done(p)
Spec == Init /\ [][Next]_vars

InCrit(k) == {p \in Procs : pc[p] \in {"crit", "release"} /\ want[p] = k}
MutualExclusion == \A k \in Keys : Cardinality(InCrit(k)) <= 1
\* nobody waits on a key that nobody holds and whose channel will never be closed
NoLostWakeup == \A p \in Procs : pc[p] = "wait" => (waitOn[p] \in closed \/ \E q \in Procs : pc[q] \in {"crit", "release"} /\ held[want[q]] = waitOn[p])
\* all work gets done
Finished == \A p \in Procs : pc[p] = "idle" /\ left[p] = 0
CInit == Procs = {1, 2, 3} /\ Keys = {"d1", "d2"} /\ Rounds = 2 /\ Recheck = TRUE
\* inductive invariant: channel bookkeeping and mutual exclusion (no bounds on channel ids)
PCs == {"idle", "locked", "wait", "crit", "release"}
IndInv ==
  /\ \A p \in Procs : pc[p] \in PCs /\ want[p] \in Keys /\ left[p] >= 0
  /\ nextCh >= 1
  /\ \A k \in Keys : held[k] >= 0 /\ held[k] < nextCh /\ (held[k] # 0 => held[k] \notin closed)
  /\ \A c \in closed : c >= 1 /\ c < nextCh
  /\ \A k1, k2 \in Keys : (k1 # k2 /\ held[k1] # 0) => held[k1] # held[k2]
  /\ \A p \in Procs : pc[p] = "wait" => (waitOn[p] >= 1 /\ waitOn[p] < nextCh)
  /\ \A k \in Keys : (held[k] # 0) <=> (\E p \in Procs : pc[p] \in {"crit", "release"} /\ want[p] = k)
  /\ MutualExclusion
\* any state (reachable or not) with channel ids below 20 that satisfies the invariant
IndInit ==
  /\ pc \in [Procs -> PCs] /\ want \in [Procs -> Keys]
  /\ nextCh \in 1..20 /\ held \in [Keys -> 0..20] /\ waitOn \in [Procs -> 0..20]
  /\ closed \in SUBSET (1..20) /\ left \in [Procs -> 0..2]
  /\ IndInv
=============================================================================
