-------------------------------- MODULE NodeOps --------------------------------
(***************************************************************************)
(* Sequential reference model of one node for schema evolution (C19) and   *)
(* restarts (C14).                                                         *)
(*                                                                         *)
(* One collection T.  Schema versions form a TREE: a patch derives a new   *)
(* version k from the version that is active at that moment (vpar[k]) and  *)
(* adds field fk, so version k knows the fields on its path from the root. *)
(* Documents keep every value ever written; a query shows a document       *)
(* through the ACTIVE version: the fields that version knows, null where   *)
(* nothing was written.                                                    *)
(*   - a patch or a switch of the active version never changes a stored    *)
(*     value, a document id or the commit history (C19);                   *)
(*   - Restart changes nothing at all (C14): it is a stuttering step on    *)
(*     the abstract state; the driver additionally runs a twin node that   *)
(*     is never restarted.                                                 *)
(***************************************************************************)
EXTENDS Integers, Sequences, FiniteSets, TLC, SequencesExt

CONSTANTS Docs, MaxVer, MaxVal, MaxSteps,
          IndexOpsAnytime   \* FALSE: secondary indexes are created / dropped only while a single schema version exists

NoVal == -1
Fields == 1..MaxVer                 \* field k is added by version k

VARIABLES st,       \* st[d] : "absent" | "live" | "deleted"
          vals,     \* vals[d][f] : value or NoVal
          ncommits, \* ncommits[d] : number of document-level commits (history length)
          nver, active, indexes, steps, hist,
          vpar      \* vpar[k] : the version from which version k was derived (0 for the first)
vars == <<st, vals, ncommits, nver, active, indexes, steps, hist, vpar>>
view == <<st, vals, ncommits, nver, active, indexes, steps, vpar>>

Init == /\ st = [d \in Docs |-> "absent"] /\ vals = [d \in Docs |-> [f \in Fields |-> NoVal]]
        /\ ncommits = [d \in Docs |-> 0]
        /\ nver = 1 /\ active = 1 /\ indexes = {} /\ steps = 0 /\ hist = <<>>
        /\ vpar = [k \in 1..MaxVer |-> 0]

RECURSIVE Path(_)
Path(k) == IF k = 0 THEN {} ELSE {k} \cup Path(vpar[k])
Known == Path(active)                 \* fields the active version knows
KnownSeq == SetToSortSeq(Known, <)
Row(d) == [i \in 1..Len(KnownSeq) |-> vals[d][KnownSeq[i]]]
Obs == [rows |-> {<<d, Row(d)>> : d \in {x \in Docs : st[x] = "live"}},
        deleted |-> {d \in Docs : st[d] = "deleted"},
        fields |-> KnownSeq, nver |-> nver, active |-> active, indexes |-> indexes,
        commits |-> ncommits]
Log(e) == /\ hist' = Append(hist, [e EXCEPT !.obs = Obs']) /\ steps' = steps + 1
E(op) == [op |-> op, d |-> 0, f |-> 0, v |-> 0, k |-> 0, obs |-> <<>>]

Create(d, v) == /\ st[d] = "absent"
                /\ st' = [st EXCEPT ![d] = "live"]
                /\ vals' = [vals EXCEPT ![d] = [f \in Fields |-> IF f = 1 THEN v ELSE NoVal]]
                /\ ncommits' = [ncommits EXCEPT ![d] = 1]
                /\ UNCHANGED <<nver, active, indexes, vpar>> /\ Log([E("create") EXCEPT !.d = d, !.v = v])
Update(d, f, v) == /\ st[d] = "live" /\ f \in Known
                   /\ vals' = [vals EXCEPT ![d][f] = v] /\ ncommits' = [ncommits EXCEPT ![d] = @ + 1]
                   /\ UNCHANGED <<st, nver, active, indexes, vpar>> /\ Log([E("update") EXCEPT !.d = d, !.f = f, !.v = v])
\* the same update made on another node (same schema history) and merged here through the replication path
RemoteUpdate(d, f, v) == /\ st[d] = "live" /\ f \in Known
                         /\ vals' = [vals EXCEPT ![d][f] = v] /\ ncommits' = [ncommits EXCEPT ![d] = @ + 1]
                         /\ UNCHANGED <<st, nver, active, indexes, vpar>> /\ Log([E("remoteupdate") EXCEPT !.d = d, !.f = f, !.v = v])
Delete(d) == /\ st[d] = "live" /\ st' = [st EXCEPT ![d] = "deleted"] /\ ncommits' = [ncommits EXCEPT ![d] = @ + 1]
             /\ UNCHANGED <<vals, nver, active, indexes, vpar>> /\ Log([E("delete") EXCEPT !.d = d])
\* a patch derives version nver+1 from the active version, adding field nver+1; setAsDefault makes it active.
\* retried: the patch is first attempted inside a transaction that is discarded and then repeated, in a new transaction
\* whose context is derived from the first one's (the usual retry loop), and committed: abstractly one patch
Patch(setActive, retried) ==
                    /\ nver < MaxVer
                    /\ nver' = nver + 1 /\ vpar' = [vpar EXCEPT ![nver + 1] = active]
                    /\ active' = IF setActive THEN nver + 1 ELSE active
                    /\ UNCHANGED <<st, vals, ncommits, indexes>>
                    /\ Log([E("patch") EXCEPT !.k = IF setActive THEN 1 ELSE 0, !.f = IF retried THEN 1 ELSE 0])
\* a schema patch inside an explicit transaction that is then discarded: nothing happened
DiscardedPatch == /\ nver < MaxVer
                  /\ UNCHANGED <<st, vals, ncommits, nver, active, indexes, vpar>> /\ Log(E("discardedpatch"))
SetActive(k) == /\ k \in 1..nver /\ k # active /\ active' = k
                /\ UNCHANGED <<st, vals, ncommits, nver, indexes, vpar>> /\ Log([E("setactive") EXCEPT !.k = k])
IndexCreate(f) == /\ f \in Known /\ f \notin indexes /\ (IndexOpsAnytime \/ nver = 1) /\ indexes' = indexes \cup {f}
                  /\ UNCHANGED <<st, vals, ncommits, nver, active, vpar>> /\ Log([E("indexcreate") EXCEPT !.f = f])
IndexDrop(f) == /\ f \in indexes /\ (IndexOpsAnytime \/ nver = 1) /\ indexes' = indexes \ {f}
                /\ UNCHANGED <<st, vals, ncommits, nver, active, vpar>> /\ Log([E("indexdrop") EXCEPT !.f = f])
Restart == /\ UNCHANGED <<st, vals, ncommits, nver, active, indexes, vpar>> /\ Log(E("restart"))

Next == /\ steps < MaxSteps
        /\ \/ \E d \in Docs, v \in 0..MaxVal : Create(d, v)
           \/ \E d \in Docs, f \in Fields, v \in 0..MaxVal : Update(d, f, v) \/ RemoteUpdate(d, f, v)
           \/ \E d \in Docs : Delete(d)
           \/ \E b \in BOOLEAN, r \in BOOLEAN : Patch(b, r)
           \/ \E k \in 1..MaxVer : SetActive(k)
           \/ IndexCreate(1) \/ IndexDrop(1)          \* secondary index on the base field
           \/ Restart \/ DiscardedPatch
Spec == Init /\ [][Next]_vars

\* C19 as action properties: schema operations never alter stored data
IsSchemaOp == nver' # nver \/ active' # active
SchemaOpsKeepData == [][IsSchemaOp => (st' = st /\ vals' = vals /\ ncommits' = ncommits)]_vars
\* C14: a restart is invisible
RestartInvisible == [][(hist' # hist /\ hist'[Len(hist')].op \in {"restart", "discardedpatch"}) => Obs' = Obs]_vars
AddedFieldsStartNull == \A d \in Docs : \A f \in Fields : f > nver => vals[d][f] = NoVal
=============================================================================
