------------------------------- MODULE Identity -------------------------------
(***************************************************************************)
(* Identifiers as pure functions of content (C13).                         *)
(*                                                                         *)
(* Documents: a document's identity is  Key(content) = the set of its      *)
(* non-null initial field values (plus the collection's schema root).      *)
(* A ROUTE says how the same content is handed to the database: through    *)
(* JSON, a Go map or a GraphQL input, with its fields in some order, nulls *)
(* written explicitly or omitted.  Two routes must yield the same docID    *)
(* iff their contents have the same Key.                                   *)
(*                                                                         *)
(* Schemas: the ids assigned to a set of type definitions depend only on   *)
(* the definitions: every order of the types in the SDL and every way of   *)
(* splitting that order into successive AddSchema calls (that the database *)
(* accepts) must assign the same VersionID / CollectionID to each type.    *)
(*                                                                         *)
(* Constant-level module: TLC evaluates the route tables and the expected  *)
(* partition; the harness runs every route on a fresh real node.           *)
(***************************************************************************)
EXTENDS Integers, Sequences, FiniteSets, TLC, Json, IOUtils, SequencesExt

NULL == "null"
\* field -> candidate values (by name; the harness maps names to typed values)
DocFields == <<"s", "i", "f", "b", "t">>
\* t is a DateTime; the same instant written with and without a zone offset are different contents, but each of them
\* must get one id whichever way it is handed over (as text or as a time value that carries the zone)
TUtc == "2020-01-02T03:04:05Z"
TOff == "2020-01-02T03:04:05-05:00"
ValuesOf(f) == CASE f = "s" -> {NULL, "a", ""} [] f = "i" -> {NULL, "0", "7"} [] f = "f" -> {NULL, "1.5"} [] f = "b" -> {NULL, "true"}
                 [] f = "t" -> {NULL, TUtc, TOff}
Contents == [ {"s", "i", "f", "b", "t"} -> {NULL, "a", "", "0", "7", "1.5", "true", TUtc, TOff} ]
\* (documents with a DateTime are combined with a reduced set of the other fields to keep the table small)
ValidContent(c) == /\ \A f \in DOMAIN c : c[f] \in ValuesOf(f)
                   /\ c["t"] # NULL => (c["s"] = "a" /\ c["f"] = NULL /\ c["b"] = NULL /\ c["i"] \in {NULL, "7"})
Key(c) == {<<f, c[f]>> : f \in {g \in DOMAIN c : c[g] # NULL}}

Injective(s) == \A i, j \in DOMAIN s : i # j => s[i] # s[j]
Perms(S) == {s \in [1..Cardinality(S) -> S] : Injective(s)}
\* a reduced family of field orders: identity, reverse and two rotations
FieldOrders == {<<"s", "i", "f", "b", "t">>, <<"t", "b", "f", "i", "s">>, <<"i", "f", "t", "b", "s">>, <<"f", "s", "b", "t", "i">>}
\* "maptime": a Go map whose DateTime value is a time.Time carrying the zone (only distinct from "map" when t is set)
Vias == {"json", "map", "gql", "maptime"}
NullStyles == {"explicit", "omitted"}
AllRoutes == { [content |-> c, order |-> o, via |-> v, nulls |-> n, key |-> Key(c)]
               : c \in {x \in Contents : ValidContent(x)}, o \in FieldOrders, v \in Vias, n \in NullStyles }
DocRoutes == { r \in AllRoutes : r.via = "maptime" => r.content["t"] # NULL }
\* expected partition: routes are in the same class iff their keys are equal (stated for the harness as the key itself)
ASSUME \A r1, r2 \in DocRoutes : (r1.content = r2.content) => (r1.key = r2.key)

\* ---- schemas: type graphs by name; the SDL of each type lives in the harness (spec/identity_graphs.json)
Graphs == [isolated |-> {"A", "B"},
           onemany |-> {"Author", "Book"},
           mutual |-> {"A", "B"},
           selfref |-> {"User"},
           triangle |-> {"A", "B", "C"},
           cycletail |-> {"A", "B", "C"},
           four |-> {"A", "B", "C", "D"},
           \* a self-referencing type declared together with unrelated plain types: the ids of the plain types must not
           \* depend on whether the circular type is in the same call
           mixedself |-> {"Book", "User", "Shelf"}]
\* all ways to cut a sequence into consecutive non-empty blocks
RECURSIVE Cuts(_)
Cuts(s) == IF Len(s) = 0 THEN {<<>>}
           ELSE UNION { { <<SubSeq(s, 1, k)>> \o rest : rest \in Cuts(SubSeq(s, k + 1, Len(s))) } : k \in 1..Len(s) }
SchemaRoutes == UNION { { [graph |-> g, calls |-> c] : c \in UNION { Cuts(p) : p \in Perms(Graphs[g]) } } : g \in DOMAIN Graphs }

ASSUME /\ ndJsonSerialize(IOEnv.VERIF_OUT \o ".docs", SetToSeq(DocRoutes))
       /\ ndJsonSerialize(IOEnv.VERIF_OUT \o ".schemas", SetToSeq(SchemaRoutes))
       /\ PrintT(<<"routes", Cardinality(DocRoutes), Cardinality(SchemaRoutes)>>)

VARIABLE dummy
Init == dummy = 0
Next == UNCHANGED dummy
Spec == Init /\ [][Next]_dummy
=============================================================================
