SPECIFICATION Spec
CONSTANTS
  Docs = {"d1","d2"}
  Txns = {1,2}
  MaxVal = 1
  MaxOps = 6
  Branchable = FALSE
VIEW view
INVARIANTS TypeOK FirstCommitterWins SnapshotStable EventsMatchCommits
PROPERTIES NoDirtyWrite NotifiedOnlyOnCommit DiscardNoTrace
CHECK_DEADLOCK FALSE
