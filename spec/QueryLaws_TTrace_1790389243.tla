---- MODULE QueryLaws_TTrace_1790389243 ----
EXTENDS Sequences, QueryLaws, TLCExt, Toolbox, Naturals, TLC

_expression ==
    LET QueryLaws_TEExpression == INSTANCE QueryLaws_TEExpression
    IN QueryLaws_TEExpression!expression
----

_trace ==
    LET QueryLaws_TETrace == INSTANCE QueryLaws_TETrace
    IN QueryLaws_TETrace!trace
----

_inv ==
    ~(
        TLCGet("level") = Len(_TETrace)
        /\
        docs = ({[id |-> 1, s |-> -100, i |-> -100, b |-> -100, j |-> -100]})
    )
----

_init ==
    /\ docs = _TETrace[1].docs
----

_next ==
    /\ \E i,j \in DOMAIN _TETrace:
        /\ \/ /\ j = i + 1
              /\ i = TLCGet("level")
        /\ docs  = _TETrace[i].docs
        /\ docs' = _TETrace[j].docs

\* Uncomment the ASSUME below to write the states of the error trace
\* to the given file in Json format. Note that you can pass any tuple
\* to `JsonSerialize`. For example, a sub-sequence of _TETrace.
    \* ASSUME
    \*     LET J == INSTANCE Json
    \*         IN J!JsonSerialize("QueryLaws_TTrace_1790389243.json", _TETrace)

=============================================================================

 Note that you can extract this module `QueryLaws_TEExpression`
  to a dedicated file to reuse `expression` (the module in the 
  dedicated `QueryLaws_TEExpression.tla` file takes precedence 
  over the module `QueryLaws_TEExpression` below).

---- MODULE QueryLaws_TEExpression ----
EXTENDS Sequences, QueryLaws, TLCExt, Toolbox, Naturals, TLC

expression == 
    [
        \* To hide variables of the `QueryLaws` spec from the error trace,
        \* remove the variables below.  The trace will be written in the order
        \* of the fields of this record.
        docs |-> docs
        
        \* Put additional constant-, state-, and action-level expressions here:
        \* ,_stateNumber |-> _TEPosition
        \* ,_docsUnchanged |-> docs = docs'
        
        \* Format the `docs` variable as Json value.
        \* ,_docsJson |->
        \*     LET J == INSTANCE Json
        \*     IN J!ToJson(docs)
        
        \* Lastly, you may build expressions over arbitrary sets of states by
        \* leveraging the _TETrace operator.  For example, this is how to
        \* count the number of times a spec variable changed up to the current
        \* state in the trace.
        \* ,_docsModCount |->
        \*     LET F[s \in DOMAIN _TETrace] ==
        \*         IF s = 1 THEN 0
        \*         ELSE IF _TETrace[s].docs # _TETrace[s-1].docs
        \*             THEN 1 + F[s-1] ELSE F[s-1]
        \*     IN F[_TEPosition - 1]
    ]

=============================================================================



Parsing and semantic processing can take forever if the trace below is long.
 In this case, it is advised to uncomment the module below to deserialize the
 trace from a generated binary file.

\*
\*---- MODULE QueryLaws_TETrace ----
\*EXTENDS IOUtils, QueryLaws, TLC
\*
\*trace == IODeserialize("QueryLaws_TTrace_1790389243.bin", TRUE)
\*
\*=============================================================================
\*

---- MODULE QueryLaws_TETrace ----
EXTENDS QueryLaws, TLC

trace == 
    <<
    ([docs |-> {}]),
    ([docs |-> {[id |-> 1, s |-> -100, i |-> -100, b |-> -100, j |-> -100]}])
    >>
----


=============================================================================

---- CONFIG QueryLaws_TTrace_1790389243 ----
CONSTANTS
    Ids = { 1 , 2 , 3 }
    SDom <- SDomSmall
    IDom <- IDomSmall
    Cmp <- CmpBroken

INVARIANT
    _inv

CHECK_DEADLOCK
    \* CHECK_DEADLOCK off because of PROPERTY or INVARIANT above.
    FALSE

INIT
    _init

NEXT
    _next

CONSTANT
    _TETrace <- _trace

ALIAS
    _expression
=============================================================================
\* Generated on Sat Sep 26 02:20:45 UTC 2026