------------------------------- MODULE Crypto_gen -------------------------------
EXTENDS Crypto, Json, CSV, IOUtils, SequencesExt
Export == CSVWrite("%1$s", <<ToJson([hist |-> hist', blocks |-> blocks', mode |-> mode', encf |-> encf'])>>, IOEnv.VERIF_OUT)
ExportLeaves == (nupd' = MaxUpdates) => Export
\* complete behaviours that contain a peer write followed by at least one owner update
ExportPeerLeaves == (nupd' = MaxUpdates /\ nupd = MaxUpdates - 1 /\ npeer = 1) => Export
ASSUME ndJsonSerialize(IOEnv.VERIF_OUT \o ".sig", SetToSeq(SigCases))
=============================================================================
