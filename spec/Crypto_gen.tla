------------------------------- MODULE Crypto_gen -------------------------------
EXTENDS Crypto, Json, CSV, IOUtils, SequencesExt
Export == CSVWrite("%1$s", <<ToJson([hist |-> hist', blocks |-> blocks', mode |-> mode', encf |-> encf'])>>, IOEnv.VERIF_OUT)
ExportLeaves == (nupd' = MaxUpdates) => Export
ASSUME ndJsonSerialize(IOEnv.VERIF_OUT \o ".sig", SetToSeq(SigCases))
=============================================================================
