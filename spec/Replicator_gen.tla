------------------------------ MODULE Replicator_gen ------------------------------
(* Environment schedules for the loopback replay: the Env actions of a behaviour of Replicator, in order.   *)
(* The system actions (pushes, retries, merges) are taken by the real code on its own.                       *)
EXTENDS Replicator, Json, CSV, IOUtils
VARIABLE sched
gvars == <<vars, sched>>
GInit == Init /\ sched = <<>>
EnvStep(e) == sched' = Append(sched, e)
GNext == \/ Sys /\ UNCHANGED sched
         \/ \E d \in Docs : Write(d) /\ EnvStep([op |-> "write", d |-> d, kind |-> ""])
         \/ \E k \in {"net", "restart"} : BDown(k) /\ EnvStep([op |-> "bdown", d |-> 0, kind |-> k])
         \/ BUp /\ EnvStep([op |-> "bup", d |-> 0, kind |-> ""])
         \/ Patch /\ EnvStep([op |-> "patch", d |-> 0, kind |-> ""])
GSpec == GInit /\ [][GNext]_gvars
Done == (\A d \in Docs : ver[d] = MaxV) /\ downs = MaxDown /\ bup = "up"
Export == Done' /\ ~Done => CSVWrite("%1$s", <<ToJson(sched')>>, IOEnv.VERIF_OUT)
=============================================================================
