--------------------------------- MODULE KVTxn ---------------------------------
(***************************************************************************)
(* Transactions, atomic API calls and update notifications of one DefraDB  *)
(* node (C05, C06, C16, C20).                                              *)
(*                                                                         *)
(* Logical store at document granularity: every document is "absent",      *)
(* "deleted" or live with an integer value.  API calls run either inside   *)
(* an explicit transaction t (client.Txn: NewTxn .. Commit/Discard) or as  *)
(* an implicit transaction (ensureContextTxn: begin, work, commit on the   *)
(* success path, deferred discard).  Structured like                       *)
(* internal/db/txn.go + internal/datastore/txn.go:                          *)
(*   - reads see  snapshot at Begin  (+) own writes;                       *)
(*   - Commit applies the write set at once, then runs the OnSuccess       *)
(*     callbacks in registration order: one update notification per        *)
(*     document-level commit;                                              *)
(*   - Commit fails with a conflict if a key this transaction wrote was    *)
(*     committed by someone else since Begin (MUST), and may fail if any   *)
(*     other write transaction committed since Begin (badger tracks reads);*)
(*   - Discard / conflict / storage fault: no effect, no notification.     *)
(* Every action carries the RESULT the API returns as a parameter, so the  *)
(* same actions generate schedules (Next) and validate recorded traces     *)
(* (trace/Trace_KVTxn.tla).                                                *)
(***************************************************************************)
EXTENDS Integers, Sequences, FiniteSets, TLC

CONSTANTS Docs,      \* document names, e.g. {"d1","d2"}
          Txns,      \* explicit transaction ids, e.g. {1,2}
          MaxVal,    \* values written by updates are 1..MaxVal
          MaxOps,    \* bound on the number of API calls in a schedule (generation only)
          Branchable \* TRUE: branchable collection, every document-level commit is followed by a collection-level commit

Absent  == -1
Deleted == -2
NoWrite == -3
States  == {Absent, Deleted} \cup (0..MaxVal)

VARIABLES
  db,        \* committed state        : [Docs -> States]
  cver,      \* number of committed write transactions
  lastw,     \* lastw[d] : cver at which d was last committed
  tx,        \* per explicit transaction: [st, start, snap, ws, evq]
  published, \* sequence of notifications handed to the event bus: <<[d, k, v]>> (v: the document's state at that commit)
  subs,      \* set of currently subscribed bus subscribers (every one of them receives every notification
             \* published while it is subscribed, whatever other subscribers came and went)
  nops,      \* number of API calls so far (bound)
  chist,     \* ghost: committed write transactions [start, at, docs]
  hist       \* schedule (generation only; hidden by VIEW)

vars == <<db, cver, lastw, tx, published, subs, nops, chist, hist>>
view == <<db, cver, lastw, tx, published, subs, nops, chist>>

\* notifications of one document-level commit
Ev(d, k, v) == IF Branchable THEN <<[d |-> d, k |-> k, v |-> v], [d |-> "_collection", k |-> "collection", v |-> 0]>>
              ELSE <<[d |-> d, k |-> k, v |-> v]>>

TxInit == [st |-> "idle", start |-> 0, snap |-> [d \in Docs |-> Absent],
           ws |-> [d \in Docs |-> NoWrite], evq |-> <<>>]

Init == /\ db = [d \in Docs |-> Absent] /\ cver = 0 /\ lastw = [d \in Docs |-> 0]
        /\ tx = [t \in Txns |-> TxInit] /\ published = <<>> /\ subs = {} /\ nops = 0 /\ chist = <<>> /\ hist = <<>>

View(t) == [d \in Docs |-> IF tx[t].ws[d] # NoWrite THEN tx[t].ws[d] ELSE tx[t].snap[d]]
Live(s) == s >= 0

\* result of a mutation on a document whose visible state is s; the new state (or NoWrite on error)
CreateRes(s)    == IF s = Absent THEN "ok" ELSE "err"
UpdateRes(s)    == IF Live(s) THEN "ok" ELSE "err"
DeleteRes(s)    == IF Live(s) THEN "ok" ELSE "err"
Rows(v)         == {<<d, v[d]>> : d \in {x \in Docs : Live(v[x])}}

Log(e) == hist' = Append(hist, e)
Count == nops' = nops + 1

-----------------------------------------------------------------------------
(* explicit transactions *)
Begin(t) ==
  /\ tx[t].st = "idle"
  /\ tx' = [tx EXCEPT ![t] = [TxInit EXCEPT !.st = "open", !.start = cver, !.snap = db]]
  /\ UNCHANGED <<db, cver, lastw, published, subs, chist>> /\ Count /\ Log([op |-> "begin", t |-> t])

TCreate(t, d, r) ==
  /\ tx[t].st = "open" /\ r = CreateRes(View(t)[d])
  /\ tx' = IF r = "ok" THEN [tx EXCEPT ![t].ws[d] = 0, ![t].evq = @ \o Ev(d, "create", 0)] ELSE tx
  /\ UNCHANGED <<db, cver, lastw, published, subs, chist>> /\ Count /\ Log([op |-> "create", t |-> t, d |-> d])
TUpdate(t, d, v, r) ==
  /\ tx[t].st = "open" /\ r = UpdateRes(View(t)[d])
  /\ tx' = IF r = "ok" THEN [tx EXCEPT ![t].ws[d] = v, ![t].evq = @ \o Ev(d, "update", v)] ELSE tx
  /\ UNCHANGED <<db, cver, lastw, published, subs, chist>> /\ Count /\ Log([op |-> "update", t |-> t, d |-> d, v |-> v])
\* an update that changes no field still adds a document-level commit (and its notification)
TTouch(t, d, r) ==
  /\ tx[t].st = "open" /\ r = UpdateRes(View(t)[d])
  /\ tx' = IF r = "ok" THEN [tx EXCEPT ![t].ws[d] = View(t)[d], ![t].evq = @ \o Ev(d, "update", View(t)[d])] ELSE tx
  /\ UNCHANGED <<db, cver, lastw, published, subs, chist>> /\ Count /\ Log([op |-> "touch", t |-> t, d |-> d])
TDelete(t, d, r) ==
  /\ tx[t].st = "open" /\ r = DeleteRes(View(t)[d])
  /\ tx' = IF r = "ok" THEN [tx EXCEPT ![t].ws[d] = Deleted, ![t].evq = @ \o Ev(d, "delete", Deleted)] ELSE tx
  /\ UNCHANGED <<db, cver, lastw, published, subs, chist>> /\ Count /\ Log([op |-> "delete", t |-> t, d |-> d])
\* a query inside the transaction returns the live documents of  snapshot (+) own writes
TQuery(t, rows) ==
  /\ tx[t].st = "open" /\ rows = Rows(View(t))
  /\ UNCHANGED <<db, cver, lastw, tx, published, subs, chist>> /\ Count /\ Log([op |-> "query", t |-> t])

\* the other read paths of the API see the same view: listing document ids (collection.GetAllDocIDs) and
\* fetching one document (collection.Get; a deleted or absent document is "not found" = -1)
Names(v) == {d \in Docs : v[d] # Absent}     \* GetAllDocIDs lists every primary key, deleted documents included
GetRes(s) == IF Live(s) THEN s ELSE -1
TIds(t, names) ==
  /\ tx[t].st = "open" /\ names = Names(View(t))
  /\ UNCHANGED <<db, cver, lastw, tx, published, subs, chist>> /\ Count /\ Log([op |-> "ids", t |-> t])
TGet(t, d, r) ==
  /\ tx[t].st = "open" /\ r = GetRes(View(t)[d])
  /\ UNCHANGED <<db, cver, lastw, tx, published, subs, chist>> /\ Count /\ Log([op |-> "get", t |-> t, d |-> d])

Wrote(t) == {d \in Docs : tx[t].ws[d] # NoWrite}
MustConflict(t) == \E d \in Wrote(t) : lastw[d] > tx[t].start
MayConflict(t)  == cver > tx[t].start /\ Wrote(t) # {}

Commit(t, r) ==
  /\ tx[t].st = "open"
  /\ \/ /\ r = "ok" /\ ~MustConflict(t)
        /\ db' = [d \in Docs |-> IF tx[t].ws[d] # NoWrite THEN tx[t].ws[d] ELSE db[d]]
        /\ IF Wrote(t) # {}
           THEN /\ cver' = cver + 1
                /\ lastw' = [d \in Docs |-> IF d \in Wrote(t) THEN cver + 1 ELSE lastw[d]]
                /\ chist' = Append(chist, [start |-> tx[t].start, at |-> cver + 1, docs |-> Wrote(t)])
           ELSE UNCHANGED <<cver, lastw, chist>>
        /\ published' = published \o tx[t].evq
     \/ /\ r = "conflict" /\ MayConflict(t)
        /\ UNCHANGED <<db, cver, lastw, published, subs, chist>>
  /\ tx' = [tx EXCEPT ![t] = TxInit] /\ UNCHANGED subs
  /\ Count /\ Log([op |-> "commit", t |-> t])

Discard(t) ==
  /\ tx[t].st = "open"
  /\ tx' = [tx EXCEPT ![t] = TxInit]
  /\ UNCHANGED <<db, cver, lastw, published, subs, chist>> /\ Count /\ Log([op |-> "discard", t |-> t])

-----------------------------------------------------------------------------
(* implicit transactions: one API call = begin; work; commit.  fault = TRUE: a storage operation of  *)
(* the call failed (C05): the call reports an error and nothing changes.                              *)
IApply(d, new, k, r, fault) ==
  IF r = "ok" /\ ~fault
  THEN /\ db' = [db EXCEPT ![d] = new] /\ cver' = cver + 1 /\ lastw' = [lastw EXCEPT ![d] = cver + 1]
       /\ chist' = Append(chist, [start |-> cver, at |-> cver + 1, docs |-> {d}])
       /\ published' = published \o Ev(d, k, new)
  ELSE UNCHANGED <<db, cver, lastw, published, subs, chist>>
ICreate(d, r, fault) == /\ (fault /\ r = "fault") \/ (~fault /\ r = CreateRes(db[d]))
                        /\ IApply(d, 0, "create", r, fault)
                        /\ UNCHANGED <<tx, subs>> /\ Count /\ Log([op |-> "create", t |-> 0, d |-> d])
IUpdate(d, v, r, fault) == /\ (fault /\ r = "fault") \/ (~fault /\ r = UpdateRes(db[d]))
                           /\ IApply(d, v, "update", r, fault)
                           /\ UNCHANGED <<tx, subs>> /\ Count /\ Log([op |-> "update", t |-> 0, d |-> d, v |-> v])
ITouch(d, r, fault) == /\ (fault /\ r = "fault") \/ (~fault /\ r = UpdateRes(db[d]))
                       /\ IApply(d, db[d], "update", r, fault)
                       /\ UNCHANGED <<tx, subs>> /\ Count /\ Log([op |-> "touch", t |-> 0, d |-> d])
IDelete(d, r, fault) == /\ (fault /\ r = "fault") \/ (~fault /\ r = DeleteRes(db[d]))
                        /\ IApply(d, Deleted, "delete", r, fault)
                        /\ UNCHANGED <<tx, subs>> /\ Count /\ Log([op |-> "delete", t |-> 0, d |-> d])
IQuery(rows) == /\ rows = Rows(db)
                /\ UNCHANGED <<db, cver, lastw, tx, published, subs, chist>> /\ Count /\ Log([op |-> "query", t |-> 0])

IIds(names) == /\ names = Names(db)
               /\ UNCHANGED <<db, cver, lastw, tx, published, subs, chist>> /\ Count /\ Log([op |-> "ids", t |-> 0])
IGet(d, r) == /\ r = GetRes(db[d])
              /\ UNCHANGED <<db, cver, lastw, tx, published, subs, chist>> /\ Count /\ Log([op |-> "get", t |-> 0, d |-> d])

\* subscribers come and go
Subscribe(s) == /\ s \notin subs /\ subs' = subs \cup {s}
                /\ UNCHANGED <<db, cver, lastw, tx, published, chist>> /\ Count /\ Log([op |-> "sub", t |-> 0, s |-> s])
Unsubscribe(s) == /\ s \in subs /\ subs' = subs \ {s}
                  /\ UNCHANGED <<db, cver, lastw, tx, published, chist>> /\ Count /\ Log([op |-> "unsub", t |-> 0, s |-> s])
SubIds == {"s1", "s2", "s3", "s4"}

\* A GraphQL subscription  subscription { T(filter: {v: {_ge: f}}) { name v } }  open since the start: one result per
\* notification of a document-level commit at which the document is live and matches, showing the state AT that
\* commit (internal/db/subscriptions.go evaluates the selection at the notification's cid), in notification order;
\* nothing for a commit that does not match, for a delete, or for a collection-level commit.
GqlMatches(e, f) == e.d # "_collection" /\ Live(e.v) /\ e.v >= f
RECURSIVE GqlResults(_, _)
GqlResults(evs, f) == IF evs = <<>> THEN <<>>
                      ELSE (IF GqlMatches(Head(evs), f) THEN <<<<Head(evs).d, Head(evs).v>>>> ELSE <<>>) \o GqlResults(Tail(evs), f)

-----------------------------------------------------------------------------
Res == {"ok", "err"}
Next ==
  /\ nops < MaxOps
  /\ \/ \E t \in Txns : Begin(t) \/ Discard(t) \/ (\E r \in {"ok", "conflict"} : Commit(t, r))
     \/ \E t \in Txns, d \in Docs, r \in Res : TCreate(t, d, r) \/ TDelete(t, d, r) \/ (\E v \in 1..MaxVal : TUpdate(t, d, v, r))
     \/ \E t \in Txns : TQuery(t, Rows(View(t))) \/ TIds(t, Names(View(t))) \/ (\E d \in Docs : TGet(t, d, GetRes(View(t)[d])))
     \/ IIds(Names(db)) \/ (\E d \in Docs : IGet(d, GetRes(db[d])))
     \/ \E d \in Docs, r \in Res : ICreate(d, r, FALSE) \/ IDelete(d, r, FALSE) \/ (\E v \in 1..MaxVal : IUpdate(d, v, r, FALSE))
     \/ IQuery(Rows(db))
     \/ \E s \in SubIds : Subscribe(s) \/ Unsubscribe(s)
     \/ \E t \in Txns, d \in Docs, r \in Res : TTouch(t, d, r)
     \/ \E d \in Docs, r \in Res : ITouch(d, r, FALSE)
Spec == Init /\ [][Next]_vars

-----------------------------------------------------------------------------
(* Properties (C06, C20 design level) *)
TypeOK == /\ db \in [Docs -> States] /\ cver \in Nat
          /\ \A t \in Txns : tx[t].st \in {"idle", "open"}
\* first committer wins: no two committed write transactions that overlapped in time wrote the same document
FirstCommitterWins ==
  \A i, j \in 1..Len(chist) : i < j /\ chist[j].start < chist[i].at => chist[i].docs \cap chist[j].docs = {}
\* snapshot reads: what an open transaction sees of a document it has not written is the state at its start
SnapshotStable == \A t \in Txns : tx[t].st = "open" => \A d \in Docs : tx[t].ws[d] = NoWrite => View(t)[d] = tx[t].snap[d]
\* no dirty state: the committed store only ever changes by a Commit / implicit call (action property)
NoDirtyWrite == [][db' # db => cver' = cver + 1]_vars
\* notifications only for committed changes, one per document-level commit, in commit order
EventsMatchCommits == Len(published) >= Len(chist)
NotifiedOnlyOnCommit == [][published' # published => cver' = cver + 1]_vars
\* a discarded transaction leaves no trace
DiscardNoTrace == [][\A t \in Txns : (tx[t].st = "open" /\ tx'[t].st = "idle" /\ cver' = cver) => (db' = db /\ published' = published)]_vars
=============================================================================
