"""C10: documents you may not read are invisible through every query path. spec/ACP.tla + replay on a node with local ACP."""
import json, os
import vlib

MC = """SPECIFICATION Spec
CONSTANTS Actors = {actors} Docs = {docs} MaxVal = 2 MaxSteps = {steps}
VIEW view
INVARIANTS OwnerReads AnonSeesOnlyPublic UpdateImpliesRead NonInterference SubNonInterference
PROPERTIES RefusedChangesNothing
CHECK_DEADLOCK FALSE
"""
GEN = """SPECIFICATION GenSpec
CONSTANTS Actors = {{1,2,3}} Docs = {{1,2,3}} MaxVal = 3 MaxSteps = {steps}
VIEW view
ACTION_CONSTRAINT ExportLeaves
CHECK_DEADLOCK FALSE
"""

def check(run, replay):
    thorough = run.tier == "thorough"
    binary = run.build("acprun")
    if replay:
        files = [replay]
    else:
        run.tlc("ACP.tla", "mc.cfg", workers=8, timeout=1500, cfg_text=MC.format(actors="{1,2}", docs="{1,2}", steps=7 if thorough else 5), label="MC_ACP")
        files = []
        for tag, steps, n in (("a", 9, 400 if thorough else 60), ("b", 14, 200 if thorough else 30)):
            out = os.path.join(run.tmp, "acp-%s.ndjson" % tag)
            run.tlc("ACP_gen.tla", "gen_%s.cfg" % tag, mode="simulate", workers=1, sim="num=%d" % n, extra=["-depth", str(steps)], timeout=900,
                    env={"VERIF_OUT": out}, cfg_text=GEN.format(steps=steps), label="GEN_ACP_" + tag)
            if not os.path.exists(out):
                raise vlib.Infra("no ACP behaviours exported")
            files.append(out)
    viol, tot = [], dict(behaviours=0, steps=0, requests=0, refused_attempts=0, subscription_behaviours=0, subscription_results=0, subscription_silences_checked=0)
    kinds = {}
    for i, f in enumerate(files):
        out = os.path.join(run.tmp, "acpres-%d.json" % i)
        try:
            run.run_driver(binary, ["-beh", f, "-out", out] + (["-full", "-sub", "1"] if replay else ["-budget", "500s", "-full", "-sub", "3"] if thorough else ["-budget", "80s", "-sub", "4"]), timeout=4000)
        except vlib.Crash as c:
            viol.append({"kind": "node-panic", "msg": "DefraDB died under an ACP request: %s\n%s" % (c.head, c.stack[:1500])})
            continue
        r = json.load(open(out))["result"]
        if r.get("harness_errors"):
            raise vlib.Infra("acp driver: %s" % r["harness_errors"][0])
        for k in tot:
            tot[k] += r.get(k, 0) or 0
        for k, v in (r.get("requests_by_kind") or {}).items():
            kinds[k] = kinds.get(k, 0) + v
        for v in r.get("violations") or []:
            viol.append({"kind": v["kind"], "msg": v["msg"], "behaviour_data": v.get("behaviour_data")})
    if tot["behaviours"] == 0 and not viol:
        raise vlib.Infra("no behaviour replayed")
    for v in viol:
        v["property"] = "C10"
    sample = []
    if not replay:
        import vshow
        L = vshow.load(files[0], maximal=False)
        sample = [[{k: s[k] for k in ("op", "a", "d", "v", "r", "b", "res")} for s in L[0]]]
    cov = {"traces_validated_against_impl": tot["behaviours"], "steps": tot["steps"], "requests": tot["requests"], "requests_by_kind": kinds,
           "refused_attempts": tot["refused_attempts"], "subscription_behaviours": tot["subscription_behaviours"], "subscription_results": tot["subscription_results"],
           "subscription_silences_checked": tot["subscription_silences_checked"], "samples": sample or [["replay"]],
           "rule": "TLC behaviours of ACP.tla (creates by 3 identities or anonymously, grant/revoke of reader/updater/deleter, authorised and unauthorised update/delete attempts); after every step each of the 4 requesters issues 15 request kinds (listing, indexed filter, order+limit, aggregates, grouping, showDeleted, _version, commits for all / by docID / by cid, latestCommits, docID lookup, time-travel read, GetAllDocIDs, collection.Get) and each must equal the same request evaluated over Visible(requester)"}
    run.finish("model_checking", viol, cov,
               ["local in-memory document ACP (acp/dac local engine) with one policy: read = owner+reader+updater+deleter, update = owner+updater, delete = owner+deleter",
                "peer-to-peer access checks (bitswap, pubsub) are not covered by this check; the subscription route is (every 4th behaviour, one subscription per requester)"])
