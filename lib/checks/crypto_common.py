"""C11 / C12 share spec/Crypto.tla and harness/cryptorun."""
import json, os
import vlib

MC = """SPECIFICATION Spec
CONSTANTS Fields = {{"a","b","c"}} MaxUpdates = {upd} Rule = "{rule}"
VIEW view
{body}
CHECK_DEADLOCK FALSE
"""

def prepare(run, thorough):
    run.tlc("Crypto.tla", "mc.cfg", workers=4, timeout=900, cfg_text=MC.format(upd=3 if thorough else 2, rule="specified", body="INVARIANTS NoPlainSecret PlainStaysPlain"), label="MC_Crypto(specified)")
    st = run.tlc("Crypto.tla", "mc_coded.cfg", workers=2, timeout=300, cfg_text=MC.format(upd=1, rule="coded", body="INVARIANTS NoPlainSecret"),
                 expect_violation=True, label="MC_Crypto(coded rule: expected refutation)")
    if not st["violated"]:
        raise vlib.Infra("the model of the coded inheritance rule no longer refutes NoPlainSecret (vacuous model)")
    out = os.path.join(run.tmp, "crypto.ndjson")
    run.tlc("Crypto_gen.tla", "gen.cfg", workers=1, timeout=900, env={"VERIF_OUT": out},
            cfg_text=MC.format(upd=3 if thorough else 2, rule="specified", body="ACTION_CONSTRAINT ExportLeaves"), label="GEN_Crypto(all complete behaviours)")
    if not os.path.exists(out) or not os.path.exists(out + ".sig"):
        raise vlib.Infra("Crypto_gen exported nothing")
    return out
