"""C11 / C12 share spec/Crypto.tla and harness/cryptorun."""
import json, os
import vlib

MC = """SPECIFICATION Spec
CONSTANTS Fields = {fields} MaxUpdates = {upd} MaxPeer = {peer} Rule = "{rule}"
VIEW view
{body}
CHECK_DEADLOCK FALSE
"""

F3 = '{"a","b","c"}'

def prepare(run, thorough):
    run.tlc("Crypto.tla", "mc.cfg", workers=4, timeout=900, cfg_text=MC.format(fields=F3, peer=1, upd=3 if thorough else 2, rule="specified", body="INVARIANTS NoPlainSecret PlainStaysPlain"), label="MC_Crypto(specified)")
    st = run.tlc("Crypto.tla", "mc_coded.cfg", workers=2, timeout=300, cfg_text=MC.format(fields=F3, peer=0, upd=1, rule="coded", body="INVARIANTS NoPlainSecret"),
                 expect_violation=True, label="MC_Crypto(coded rule: expected refutation)")
    if not st["violated"]:
        raise vlib.Infra("the model of the coded inheritance rule no longer refutes NoPlainSecret (vacuous model)")
    out = os.path.join(run.tmp, "crypto.ndjson")
    run.tlc("Crypto_gen.tla", "gen.cfg", workers=1, timeout=900, env={"VERIF_OUT": out},
            cfg_text=MC.format(fields=F3, peer=0, upd=3 if thorough else 2, rule="specified", body="ACTION_CONSTRAINT ExportLeaves"), label="GEN_Crypto(all complete behaviours)")
    # behaviours with a write by a key-less peer merged by the owner (two fields, so that the table stays small)
    outp = os.path.join(run.tmp, "crypto-peer.ndjson")
    run.tlc("Crypto_gen.tla", "genp.cfg", workers=1, timeout=900, env={"VERIF_OUT": outp},
            cfg_text=MC.format(fields='{"a","b"}', peer=1, upd=2, rule="specified", body="ACTION_CONSTRAINT ExportPeerLeaves"), label="GEN_Crypto(behaviours with a key-less peer write)")
    if not os.path.exists(outp):
        raise vlib.Infra("no behaviour with a peer write exported")
    if not os.path.exists(out) or not os.path.exists(out + ".sig"):
        raise vlib.Infra("Crypto_gen exported nothing")
    return out
