"""C05: all-or-nothing under storage faults. spec/Atomicity.tla (design, exhaustive over fault positions) +
fault enumeration on the real node (harness/faultrun, kvfault) validated against trace/Trace_Atomicity.tla."""
import json, os, re
import vlib

MC = """SPECIFICATION Spec
CONSTANTS MaxN = {n} MaxEv = 2 WriteThrough = {wt} PublishEarly = {pe}
INVARIANTS AllOrNothing EventIffCommitted NoEarlyEvent
CHECK_DEADLOCK FALSE
"""
TRACE = """SPECIFICATION TraceSpec
CONSTANTS MaxN = 0 MaxEv = 0 WriteThrough = FALSE PublishEarly = FALSE
CHECK_DEADLOCK TRUE
"""

def validate(run, trace, label):
    st = run.tlc("Trace_Atomicity.tla", "trace_%s.cfg" % label, workers=1, timeout=1800, env={"VERIF_TRACE": trace},
                 cfg_text=TRACE, expect_violation=True, label="Trace_Atomicity(%s)" % label, extra=["-noGenerateSpecTE"])
    out = st["out"]
    if "Deadlock reached" in out or st["violated"]:
        ls = re.findall(r"^/\\ l = (\d+)", out, re.M)
        return int(ls[-1]) if ls else -1
    if not st["completed"]:
        raise vlib.Infra("trace validation did not complete:\n" + out[-2000:])
    return None

def check(run, replay):
    thorough = run.tier == "thorough"
    binary = run.build("faultrun")
    # design level: with the deviations off the properties hold for every fault position; with either on they are refuted
    run.tlc("Atomicity.tla", "mc.cfg", workers=4, timeout=600, cfg_text=MC.format(n=12 if thorough else 8, wt="FALSE", pe="FALSE"), label="MC_Atomicity")
    for wt, pe in (("TRUE", "FALSE"), ("FALSE", "TRUE")):
        st = run.tlc("Atomicity.tla", "mcdev.cfg", workers=2, timeout=300, cfg_text=MC.format(n=4, wt=wt, pe=pe),
                     expect_violation=True, label="MC_Atomicity(deviation WriteThrough=%s PublishEarly=%s: expected refutation)" % (wt, pe))
        if not st["violated"]:
            raise vlib.Infra("Atomicity.tla no longer refutes its named deviations (vacuous model)")
    if thorough:
        plans = [("plain", "empty,docs,docs+deleted", 1), ("indexed", "docs,docs+deleted", 1), ("branchable", "docs", 1)]
    else:
        # rotate the residue class of k with the seed so that repeated quick runs cover all positions
        plans = [("plain", "docs", 3), ("indexed", "docs+deleted", 3)]
    viol, tot = [], dict(runs=0, fault_runs=0)
    samples, opsN = [], {}
    for i, (variant, priors, stride) in enumerate(plans):
        trace = os.path.join(run.tmp, "fault-%d.ndjson" % i)
        stats = os.path.join(run.tmp, "fstats-%d.json" % i)
        args = ["-out", trace, "-stats", stats, "-variant", variant, "-priors", priors, "-stride", str(stride),
                "-offset", str(run.seed % stride if stride > 1 else 0)]
        try:
            run.run_driver(binary, args, timeout=7000)
        except vlib.Crash as c:
            viol.append({"kind": "node-panic", "msg": "DefraDB panicked under an injected storage fault (%s): %s\n%s" % (variant, c.head, c.stack[:1500])})
            continue
        s = json.load(open(stats))
        tot["runs"] += s["runs"]; tot["fault_runs"] += s["fault_runs"]
        opsN.update({variant + ":" + k: v for k, v in s["storage_ops_per_operation"].items()})
        L = [json.loads(l) for l in open(trace)]
        if not samples:
            samples = [l for l in L if l["k"] > 0][:3]
        # validate; after a rejection continue with the rest of the trace
        offset = 0
        cur = trace
        rejected = set()
        while True:
            rej = validate(run, cur, "f%d_%d" % (i, offset))
            if rej is None:
                break
            line = L[offset + rej - 1]
            key = (line["op"], line["res"], line["cls"], line["nev"] > 0, line["retry"][:7])
            if key not in rejected:
                rejected.add(key)
                viol.append({"kind": "atomicity:%s:%s/%s" % (line["op"], line["res"], line["cls"]),
                             "msg": "%s on prior '%s' (%s) with storage operation #%d/%d (%s) failing: returned %s, database is '%s'%s, %d notification(s) (fault-free run publishes %d), retry=%s. %s" % (
                                 line["op"], line["prior"], variant, line["k"], line["n"], line.get("fault_kind"), line["res"], line["cls"],
                                 " [" + line.get("diff", "") + "]" if line.get("diff") else "", line["nev"], line["expect_ev"], line["retry"], line.get("err", "")[:200]),
                             "line": line, "variant": variant})
            offset += rej
            if offset >= len(L) or len(viol) > 30:
                break
            cur = os.path.join(run.tmp, "fault-%d-rest%d.ndjson" % (i, offset))
            with open(cur, "w") as f:
                for l in L[offset:]:
                    f.write(json.dumps(l) + "\n")
    if tot["fault_runs"] == 0 and not viol:
        raise vlib.Infra("no fault run recorded")
    cov = {"evaluations": tot["runs"], "distinct_nontrivial": tot["fault_runs"],
           "rule": "for each API operation x prior state x index/branchable variant: count N storage operations fault-free, then fail the k-th for every k (quick: every stride-th k, residue rotating with the seed); a run is non-trivial when a fault actually fired; recorded (result, dump class pre/post/partial, notifications, retry) validated by TLC against Atomicity",
           "samples": samples, "storage_ops_per_operation": opsN, "traces_validated_against_impl": tot["runs"], "exhaustive": thorough}
    for v in viol:
        v["property"] = "C05"
    run.finish("fault_enumeration", viol, cov,
               ["faults are injected at the corekv.TxnStore boundary of the root store (get/has/set/delete/iterator/next/value/seek/commit); one fault per call",
                "the logical dump (collections, indexes, served GraphQL types, documents incl. deleted, index-served queries, commits, raw head and data keys) stands for 'documents, commits, heads, index contents and schema'",
                "faults swallowed on read-only helper paths that still end in complete success are allowed by the property"])
