"""C18: export followed by import reproduces the data. spec/Backup.tla (topology table evaluated by TLC) + harness/cmd/backuprun."""
import json, os
import vlib

def check(run, replay):
    binary = run.build("backuprun")
    cases = os.path.join(run.tmp, "backup-cases.ndjson")
    run.tlc("Backup.tla", "k.cfg", workers=1, timeout=600, env={"VERIF_OUT": cases}, cfg_text="SPECIFICATION Spec\n", label="Backup(case table)")
    if not os.path.exists(cases):
        raise vlib.Infra("no backup cases")
    out = os.path.join(run.tmp, "backupres.json")
    run.run_driver(binary, ["-cases", cases, "-out", out], timeout=3000)
    r = json.load(open(out))
    viol = []
    for p in r.get("problems") or []:
        if p["kind"].startswith("setup"):
            raise vlib.Infra("backuprun could not build a case: %s" % p["msg"])
        viol.append({"property": "C18", "kind": p["kind"], "msg": "[%s] %s" % (p["case"], p["msg"])})
    n = r["cases"]
    run.tlc_stats[-1]["distinct"] = n; run.tlc_stats[-1]["generated"] = n
    samples = [json.loads(l) for l in open(cases).read().strip().split("\n")[100:103]]
    cov = {"traces_validated_against_impl": n, "documents": r["documents"], "samples": samples, "exhaustive": True,
           "rule": "every topology of four schemas: flat collection with 8 edge-case value profiles (integers beyond 2^53 and at the int64 limits, floats, date-times with nanoseconds and offsets, blobs, JSON of every shape, arrays with null elements, nulls) up to 2 documents; Author 1-N Book (every subset and every assignment of books to authors); Person 1-1 Passport (every partial injection); self-referencing User (every partial injection incl. self loops, chains and cycles). Export (pretty/compact alternating), import into an empty node, compare id-free canonical forms and the name-level edges with Canon(case); export again and compare the files. states/transitions = number of cases"}
    run.finish("model_checking", viol, cov,
               ["atomicity of import under storage faults is covered by C05 (operation 'import')",
                "collection subsets are not exercised yet"])
