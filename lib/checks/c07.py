"""C07: secondary indexes never change what a query returns. Same oracle and cases as C08, executed on nodes with
twelve index configurations (ascending/descending, single/composite, unique), created before or after the data, with the
contents reached through a create/update/delete history; plus the unique-index acceptance rule (spec/UniqueIndex.tla)."""
import json, os
import vlib
from checks import query_common as qc

def check(run, replay):
    thorough = run.tier == "thorough"
    binary = run.build("queryrun")
    if not replay:
        qc.model_check_laws(run, thorough)
    n = 8000 if thorough else 2500
    cases = qc.gen_cases(run, n, 5, "a")
    viol, executed, used, tts = [], 0, 0, 0
    samples = []
    plans = [(["-indexes", "all", "-churn"], "early+history"), (["-indexes", "all", "-late", "-timetravel", "3"], "late"), (["-indexes", "all", "-timetravel", "5"], "early")]
    for extra, name in plans:
        try:
            res = qc.run_cases(run, binary, cases, extra, "400s" if thorough else "55s")
        except vlib.Crash as c:
            viol.append({"property": "C07", "kind": "node-panic", "msg": "DefraDB died while answering an index-served query (%s): %s\n%s" % (name, c.head, c.stack[:1500])})
            continue
        executed += res["executed"]; used += res.get("index_used", 0); tts += res.get("time_travel_queries", 0)
        for v in qc.to_violations("C07", res):
            v["msg"] = "[%s] %s" % (name, v["msg"])
            viol.append(v)
    if executed == 0 and not viol:
        raise vlib.Infra("no case executed")
    if executed > 200 and used == 0:
        raise vlib.Infra("no executed query was served from an index (vacuous run)")
    L = [json.loads(json.loads(l)) for l in open(cases).read().strip().split("\n")[:2]]
    samples = [{"docs": c["docs"], "q": c["q"], "expect": c["expect"]} for c in L]
    cov = {"traces_validated_against_impl": executed, "list_queries_served_from_an_index": used, "time_travel_filter_queries": tts, "samples": samples,
           "index_sets": ["i asc", "i desc", "s asc", "s desc + b", "composite(s,i)", "composite(i desc,s)", "j asc", "j desc", "composite(j,s)", "a (array)", "composite(s,a)", "unique k + j + s + i + b"],
           "rule": "QueryGen cases (see C08) executed on a node with one of 12 index sets (rotating), indexes created before the data, after the data, and with the contents reached through creates, updates and a delete; the result must equal Result(docs,q) of spec/Query.tla, which does not know about indexes"}
    run.finish("model_checking", viol, cov,
               ["the oracle is the index-free reference semantics; explain(type: execute) is used only to count how many queries really took the index path",
                "array, JSON and relation indexes are covered by C09 / later rounds, not by this check"])
