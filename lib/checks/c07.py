"""C07: secondary indexes never change what a query returns. Same oracle and cases as C08, executed on nodes with
twelve index configurations (ascending/descending, single/composite, unique), created before or after the data, with the
contents reached through a create/update/delete history; plus the unique-index acceptance rule (spec/UniqueIndex.tla)."""
import json, os
import vlib
from checks import query_common as qc

UQ = """SPECIFICATION Spec
CONSTANTS Docs = {{1,2,3}} Vals = {{1,2}} MaxSteps = {steps} Composite = {comp} Late = {late}
{body}
CHECK_DEADLOCK FALSE
"""

def unique_index(run, thorough):
    """Second clause of C07: a unique index accepts exactly the writes that leave no two live documents with the same non-null key."""
    binary = run.build("uniqrun")
    viol, tot = [], dict(behaviours=0, steps=0, refused_writes=0, comparisons=0)
    for comp in ("FALSE", "TRUE"):
        run.tlc("UniqueIndex.tla", "mc_uq_%s.cfg" % comp, workers=4, timeout=900,
                cfg_text=UQ.format(steps=6 if thorough else 5, comp=comp, late="TRUE", body="VIEW view\nINVARIANTS UniqueWhileIndexed\nPROPERTIES RefusedChangesNothing"),
                label="MC_UniqueIndex(composite=%s)" % comp)
        for late in ("FALSE", "TRUE"):
            src = os.path.join(run.tmp, "uq-%s-%s.ndjson" % (comp, late))
            run.tlc("UniqueIndex_gen.tla", "gen_uq_%s_%s.cfg" % (comp, late), mode="simulate", workers=1, sim="num=%d" % (600 if thorough else 100), extra=["-depth", "9"], timeout=600,
                    env={"VERIF_OUT": src}, cfg_text=UQ.format(steps=9, comp=comp, late=late, body="ACTION_CONSTRAINT ExportLeaves"), label="GEN_UniqueIndex(composite=%s,late=%s)" % (comp, late))
            if not os.path.exists(src):
                raise vlib.Infra("no unique-index histories exported")
            out = os.path.join(run.tmp, "uqres-%s-%s.json" % (comp, late))
            args = ["-beh", src, "-out", out, "-budget", "200s" if thorough else "14s"]
            if comp == "TRUE":
                args.append("-composite")
            if late == "TRUE":
                args.append("-late")
            run.run_driver(binary, args, timeout=2000)
            r = json.load(open(out))
            if r.get("harness_errors"):
                raise vlib.Infra("uniqrun: " + r["harness_errors"][0])
            for k in tot:
                tot[k] += r.get(k, 0) or 0
            for v in r.get("violations") or []:
                v["msg"] = "[unique index on %s, %s] %s" % ("(u, w)" if comp == "TRUE" else "u", "created by a step of the history" if late == "TRUE" else "present from the start", v["msg"])
                viol.append(v)
    if tot["refused_writes"] == 0:
        raise vlib.Infra("no write was ever refused by the unique index (vacuous run)")
    return viol, tot

def check(run, replay):
    thorough = run.tier == "thorough"
    if replay:
        try:
            rp = json.load(open(replay))
        except Exception:
            rp = {}
        if isinstance(rp, dict) and rp.get("behaviour_data") and "route" in rp["behaviour_data"][0]:
            # a unique-index history
            ub = run.build("uniqrun")
            out = os.path.join(run.tmp, "uqres-replay.json")
            args = ["-beh", replay, "-out", out]
            if "(u, w)" in rp.get("msg", ""):
                args.append("-composite")
            if "created by a step" in rp.get("msg", ""):
                args.append("-late")
            run.run_driver(ub, args, timeout=600)
            r = json.load(open(out))
            run.finish("model_checking", r.get("violations") or [], {"traces_validated_against_impl": 1, "samples": [["replay"]], "rule": "replay of one unique-index history"}, [])
    binary = run.build("queryrun")
    if not replay:
        qc.model_check_laws(run, thorough)
    n = 8000 if thorough else 2500
    cases = qc.gen_cases(run, n, 5, "a")
    viol, executed, used, tts = [], 0, 0, 0
    samples = []
    plans = [(["-indexes", "all", "-churn"], "early+history"), (["-indexes", "all", "-late", "-timetravel", "3"], "late"), (["-indexes", "all", "-timetravel", "5"], "early")]
    for extra, name in plans:
        try:
            res = qc.run_cases(run, binary, cases, extra, "400s" if thorough else "55s")
        except vlib.Crash as c:
            viol.append({"property": "C07", "kind": "node-panic", "msg": "DefraDB died while answering an index-served query (%s): %s\n%s" % (name, c.head, c.stack[:1500])})
            continue
        executed += res["executed"]; used += res.get("index_used", 0); tts += res.get("time_travel_queries", 0)
        for v in qc.to_violations("C07", res):
            v["msg"] = "[%s] %s" % (name, v["msg"])
            viol.append(v)
    uq = dict(behaviours=0, steps=0, refused_writes=0, comparisons=0)
    if not replay:
        uviol, uq = unique_index(run, thorough)
        viol += uviol
    if executed == 0 and not viol:
        raise vlib.Infra("no case executed")
    if executed > 200 and used == 0:
        raise vlib.Infra("no executed query was served from an index (vacuous run)")
    L = [json.loads(json.loads(l)) for l in open(cases).read().strip().split("\n")[:2]]
    samples = [{"docs": c["docs"], "q": c["q"], "expect": c["expect"]} for c in L]
    cov = {"traces_validated_against_impl": executed, "list_queries_served_from_an_index": used, "time_travel_filter_queries": tts,
           "unique_index_histories": uq["behaviours"], "unique_index_steps": uq["steps"], "unique_index_refused_writes": uq["refused_writes"], "samples": samples,
           "index_sets": ["i asc", "i desc", "s asc", "s desc + b", "composite(s,i)", "composite(i desc,s)", "j asc", "j desc", "composite(j,s)", "a (array)", "composite(s,a)", "unique k + j + s + i + b"],
           "rule": "QueryGen cases (see C08) executed on a node with one of 12 index sets (rotating), indexes created before the data, after the data, and with the contents reached through creates, updates and a delete; the result must equal Result(docs,q) of spec/Query.tla, which does not know about indexes | UniqueIndex.tla: histories of creates, updates (GraphQL, collection Save, one filtered update of all documents), deletes and a late index creation under a unique index on one field or on two, present from the start or created by a step; the real node must accept exactly the writes the specification accepts, and the live documents read back (scan, index-served filter, index-ordered) equal the specification's after every step"}
    run.finish("model_checking", viol, cov,
               ["the oracle is the index-free reference semantics; explain(type: execute) is used only to count how many queries really took the index path",
                "array, JSON and relation indexes are covered by C09 / later rounds, not by this check"])
