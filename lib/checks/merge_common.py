"""C01-C04 share spec/MerkleCRDT.tla and the replay driver harness/mergereplay; each reports its own class."""
import json, os
import vlib

CFG = """SPECIFICATION Spec
CONSTANTS
  Nodes = {nodes}
  MaxC = {maxc}
  Ctrs = {ctrs}
  Regs = {regs}
  Vals = {vals}
  Incs {incs}
  Variant = "{variant}"
  NullTieFails = FALSE
  MaxDeliver = {maxdel}
VIEW view
{body}
CHECK_DEADLOCK FALSE
"""
INV_ALL = "INVARIANTS TypeOK Converge MergeNeverFails RefCtr RefReg RefRegLWW RefDel Closed HeightRule RefHeads RefFHeads ParentsOlder LWWIsCausal\nPROPERTIES NoResurrection MrgGrows"
INV_CTR = "INVARIANTS TypeOK Converge MergeNeverFails RefCtr RefDel Closed HeightRule RefHeads RefFHeads ParentsOlder\nPROPERTIES NoResurrection MrgGrows"
INV_REG = "INVARIANTS TypeOK Converge MergeNeverFails RefReg RefRegLWW RefDel Closed HeightRule RefHeads RefFHeads ParentsOlder LWWIsCausal\nPROPERTIES NoResurrection MrgGrows"

def cfg(**kw):
    d = dict(nodes="{1,2,3}", maxc=4, ctrs='{"k"}', regs='{"r"}', vals="{0,1,2}", incs="= {1}", variant="repaired", maxdel=0, body=INV_ALL)
    d.update(kw)
    return CFG.format(**d)

def model_check(run, thorough):
    """Exhaustive TLC runs of the merge model (design level): the repaired walk refines the abstract document."""
    w = 12 if thorough else 8
    if thorough:
        fam = [("ctr", cfg(maxc=5, regs="{}", vals="{}", body=INV_CTR)),
               ("reg", cfg(maxc=4, ctrs="{}", incs="= {}", body=INV_REG)),
               ("mixed2", cfg(nodes="{1,2}", maxc=4)),
               ("pn", cfg(nodes="{1,2}", maxc=5, regs="{}", vals="{}", incs="<- IncsPN", body=INV_CTR))]
    else:
        fam = [("ctr", cfg(maxc=4, regs="{}", vals="{}", body=INV_CTR)),
               ("reg", cfg(maxc=3, ctrs="{}", incs="= {}", body=INV_REG)),
               ("mixed2", cfg(nodes="{1,2}", maxc=3))]
    for name, text in fam:
        run.tlc("MerkleCRDT.tla", "mc_%s.cfg" % name, workers=w, timeout=1500 if thorough else 400, cfg_text=text, label="MC_merge_" + name)
    # the pinned walk must still be refuted by the model (keeps the counterexample generator honest / non-vacuous)
    st = run.tlc("MerkleCRDT.tla", "mc_pinned.cfg", workers=w, timeout=400,
                 cfg_text=cfg(maxc=4, regs="{}", vals="{}", variant="pinned", body="INVARIANTS RefCtr RefHeads"),
                 expect_violation=True, label="MC_merge_pinned(expected counterexample)")
    if not st["violated"]:
        raise vlib.Infra("the model of the pinned walk no longer produces its counterexample: model drift")

def generate(run, n, depth, maxc=6, nodes="{1,2,3}", vals="{0,1,2}", incs="= {1,2}", tag="gen"):
    out = os.path.join(run.tmp, "beh-%s.ndjson" % tag)
    text = cfg(nodes=nodes, maxc=maxc, vals=vals, incs=incs, body="ACTION_CONSTRAINT Export")
    run.tlc("MerkleCRDT_gen.tla", "gen_%s.cfg" % tag, mode="simulate", workers=1, sim="num=%d" % n, extra=["-depth", str(depth)],
            timeout=600, env={"VERIF_OUT": out}, cfg_text=text, label="GEN_merge_" + tag)
    if not os.path.exists(out):
        raise vlib.Infra("TLC produced no behaviours")
    return out

def generate_bulk(run, n, depth, maxc=6, tag="bulk"):
    """Behaviours in which a fresh node merges whole histories at once (MerkleCRDT_gen BulkSpec)."""
    out = os.path.join(run.tmp, "beh-%s.ndjson" % tag)
    text = cfg(maxc=maxc, incs="= {1,2}", body="ACTION_CONSTRAINT Export").replace("SPECIFICATION Spec", "SPECIFICATION BulkSpec")
    run.tlc("MerkleCRDT_gen.tla", "gen_%s.cfg" % tag, mode="simulate", workers=1, sim="num=%d" % n, extra=["-depth", str(depth)],
            timeout=600, env={"VERIF_OUT": out}, cfg_text=text, label="GEN_merge_" + tag)
    if not os.path.exists(out):
        raise vlib.Infra("TLC produced no bulk behaviours")
    return out

def directed(run, maxc=4, tag="dir", **kw):
    """Transitions of the bounded graph at which the pinned walk (or D1's null tie) first deviates."""
    out = os.path.join(run.tmp, "beh-%s.ndjson" % tag)
    text = cfg(maxc=maxc, variant="pinned", body="ACTION_CONSTRAINT ExportDeviations", **kw)
    text = text.replace("NullTieFails = FALSE", "NullTieFails = TRUE")
    run.tlc("MerkleCRDT_gen.tla", "gen_%s.cfg" % tag, workers=1, timeout=900, env={"VERIF_OUT": out}, cfg_text=text,
            label="DIRECTED_" + tag)
    if not os.path.exists(out):
        raise vlib.Infra("no directed behaviours exported")
    return out

STORED = os.path.join(vlib.ROOT, "replays", "merge")

def check(run, replay, prop):
    thorough = run.tier == "thorough"
    binary = run.build("mergereplay")
    res_all = []
    if replay:
        files = [replay]
        variants = [("plain", "")]
    else:
        model_check(run, thorough)
        n = 1500 if thorough else 300
        files = [directed(run, maxc=4, tag="dirctr", regs="{}", vals="{}"),
                 directed(run, maxc=3, tag="dirreg", ctrs="{}", incs="= {}", vals="{0,1}"),
                 generate(run, n, 14, tag="a"), generate(run, n // 2, 10, maxc=5, nodes="{1,2}", incs="<- IncsPN", tag="pn"),
                 generate_bulk(run, n // 2, 16)]
        if os.path.isdir(STORED):
            files += sorted(os.path.join(STORED, f) for f in os.listdir(STORED))
        variants = [("plain", "")]
        if thorough or prop in ("C01",):
            variants += [("branchable", ""), ("indexed", "")]
        if thorough or prop in ("C04", "C02"):
            variants += [("wide", "")]   # a document type with more than twenty fields
    viol, tot = [], dict(behaviours=0, steps=0, comparisons=0, cid_reads=0, deliveries=0, redeliveries=0, async_behaviours=0, subscription_behaviours=0, subscription_results=0)
    samples = []
    herrs = []
    for vname, _ in variants:
        for i, f in enumerate(files):
            out = os.path.join(run.tmp, "res-%s-%d.json" % (vname, i))
            stored = f.startswith(STORED) or bool(replay)
            args = ["-beh", f, "-out", out, "-seed", str(run.seed * 1000 + i), "-variant", vname, "-async", "8", "-quiesce", "-sub", "2" if prop == "C03" else "5",
                    "-repeat", str((8 if thorough else 4) if stored else 1)]
            if os.path.basename(f).startswith("beh-dir"):
                args += ["-maximal=false"]   # an exhaustive export: every line is a behaviour of its own
            if "pn" in os.path.basename(f):
                args += ["-nodes", "2"]
            if not stored:
                if thorough:
                    args += ["-budget", "100s" if vname == "plain" else "40s"]
                else:
                    args += ["-budget", "25s" if vname == "plain" else "12s"]
            try:
                run.run_driver(binary, args, timeout=3000 if thorough else 600)
            except vlib.Crash as c:
                viol.append({"property": "C01", "kind": "node-panic", "variant": vname, "source": os.path.basename(f),
                             "msg": "a DefraDB goroutine panicked while merging (%s); the node process died. driver args: %s\n%s" % (c.head, " ".join(c.args_), c.stack[:1500])})
                continue
            r = json.load(open(out))
            res = r["result"]
            for k in tot:
                tot[k] += res.get(k, 0) or 0
            herrs += res.get("harness_errors") or []
            for v in res.get("violations") or []:
                v["variant"] = vname
                v["source"] = os.path.basename(f)
                viol.append(v)
            if not samples:
                import vshow
                samples = vshow.sample(f, 2)
    if not replay and prop in ("C04", "C02"):
        # long diverged histories: heights beyond the one-byte range of their encoding, evaluated with the spec's graph rules
        out = os.path.join(run.tmp, "res-deep.json")
        deep = "200:400,250:300" + (",127:130,300:16500" if thorough else "")
        try:
            run.run_driver(binary, ["-beh", files[0], "-deeponly", "-out", out, "-seed", str(run.seed), "-nodes", "2", "-deep", deep], timeout=3000)
            r = json.load(open(out))["result"]
            for k in tot:
                tot[k] += r.get(k, 0) or 0
            herrs += r.get("harness_errors") or []
            for v in r.get("violations") or []:
                v["variant"] = "deep"; v["source"] = "deep:" + deep
                viol.append(v)
        except vlib.Crash as c:
            viol.append({"property": "C01", "kind": "node-panic", "variant": "deep", "source": "deep", "msg": "a DefraDB goroutine panicked in a deep history (%s)\n%s" % (c.head, c.stack[:1500])})
    if herrs:
        raise vlib.Infra("replay driver could not run %d behaviours, first: %s" % (len(herrs), herrs[0]))
    if tot["behaviours"] == 0:
        raise vlib.Infra("no behaviour was replayed")
    mine = [v for v in viol if v["property"] == prop]
    others = {}
    for v in viol:
        if v["property"] != prop:
            others[v["property"]] = others.get(v["property"], 0) + 1
    if others:
        run.notes.append("violations attributed to other properties in this run (reported by their own checks): %s" % others)
    cov = dict(tot)
    cov.update({"traces_validated_against_impl": tot["behaviours"], "samples": samples,
                "collection_variants": [v for v, _ in variants],
                "rule": "TLC simulation behaviours of MerkleCRDT (create/update/delete/deliver incl. redelivery of ancestors) + stored counterexamples; every step compared with Obs(mrg[n])"})
    return mine, cov

ASSUME = ["TLC explores the design exhaustively only within the stated constants (<=3 nodes, <=5 commits, one document)",
          "delivery = copying the block closure into the receiver's block store + one executeMerge (hook VerifMerge); one behaviour in eight goes through the event bus path",
          "register verdict = membership in the causally-latest writes + cross-replica equality, not the coded tie-break"]
