from checks import merge_common as mc
def check(run, replay):
    mine, cov = mc.check(run, replay, "C01")
    run.finish("model_checking", mine, cov, mc.ASSUME)
