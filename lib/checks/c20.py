"""C20: update notifications are complete, ordered and only for committed changes. spec/KVTxn.tla + trace validation of
recorded notification sequences (txn_common), and spec/EventBus.tla replayed on the real channel bus."""
import json, os
import vlib
from checks import txn_common as tc

EB = """SPECIFICATION Spec
CONSTANTS Subs = {subs} Names = {{"update","merge"}} MaxSteps = {steps}
{body}
CHECK_DEADLOCK FALSE
"""

def event_bus(run, replay, thorough):
    binary = run.build("busrun")
    out = os.path.join(run.tmp, "busres.json")
    if replay:
        src = replay
    else:
        run.tlc("EventBus.tla", "mc_bus.cfg", workers=4, timeout=900,
                cfg_text=EB.format(subs='{"s1","s2"}', steps=7 if thorough else 6, body="VIEW view\nINVARIANTS Fifo\nPROPERTIES NothingAfterClose ExactFanOut"), label="MC_EventBus")
        src = os.path.join(run.tmp, "bus.ndjson")
        run.tlc("EventBus_gen.tla", "gen_bus.cfg", mode="simulate", workers=1, sim="num=%d" % (6000 if thorough else 1200), extra=["-depth", "8"], timeout=600,
                env={"VERIF_OUT": src}, cfg_text=EB.format(subs='{"s1","s2","s3"}', steps=8, body="ACTION_CONSTRAINT ExportLeaves"), label="GEN_EventBus")
        if not os.path.exists(src):
            raise vlib.Infra("no event-bus behaviours exported")
    run.run_driver(binary, ["-beh", src, "-out", out], timeout=1200)
    r = json.load(open(out))
    if r.get("harness_errors"):
        raise vlib.Infra("busrun: " + r["harness_errors"][0])
    return r

def check(run, replay):
    thorough = run.tier == "thorough"
    is_bus = False
    if replay:
        try:
            is_bus = "closed" in json.dumps(json.load(open(replay)).get("behaviour_data", [{}])[0].get("obs", {}))
        except Exception:
            is_bus = False
    mine, cov = ([], {"traces_validated_against_impl": 0, "samples": [["replay"]]}) if is_bus else tc.check(run, replay, "C20")
    if not replay or is_bus:
        r = event_bus(run, replay if is_bus else None, thorough)
        mine += r.get("violations") or []
        cov["traces_validated_against_impl"] += r["behaviours"]
        cov["event_bus_behaviours"] = r["behaviours"]
        cov["event_bus_comparisons"] = r["comparisons"]
        cov["rule"] = cov.get("rule", "") + " | EventBus.tla: command sequences (subscribe with name sets incl. the wildcard, unsubscribe, publish, close) executed on a real channel bus; after every command what each subscriber received and whether its channel is closed equal the specification (a fence message tells when the command has been handled)"
    run.finish("model_checking", mine, cov, tc.ASSUME)
