from checks import txn_common as tc
def check(run, replay):
    mine, cov = tc.check(run, replay, "C20")
    run.finish("model_checking", mine, cov, tc.ASSUME)
