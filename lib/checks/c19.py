from checks import node_common as nc
def check(run, replay):
    mine, cov = nc.check(run, replay, "C19")
    run.finish("model_checking", mine, cov, nc.ASSUME)
