"""C16: concurrent use of one node is race-free and loses no committed effect. The driver (built with -race) records
invocation/return histories of concurrent calls; TLC searches for a linearization (trace/Trace_Concurrent.tla)."""
import json, os, re, shutil
import vlib

CFG = "SPECIFICATION Spec\nCONSTANT Mode = \"%s\"\nINVARIANT NotAccepted\nCHECK_DEADLOCK FALSE\n"

def linearizable(run, hist, label, mode="lin"):
    st = run.tlc("Trace_Concurrent.tla", "%s_%s.cfg" % (mode, label), workers=1, timeout=600 if mode == "lin" else 120, env={"VERIF_TRACE": hist}, cfg_text=CFG % mode,
                 expect_violation=True, depthfirst=True, label="Trace_Concurrent(%s,%s)" % (mode, label), extra=["-noGenerateSpecTE"])
    if "NotAccepted is violated" in st["out"]:
        return True
    if st["completed"]:
        return False
    raise vlib.Infra("linearizability search did not complete:\n" + st["out"][-1500:])

def inductive_step(run):
    """Optional stronger step (Apalache, time-boxed): MutualExclusion of the merge queue is part of an inductive invariant
    (base case from Init; step from ANY state satisfying the invariant with channel ids below 20). A failure to run is
    recorded as a note, a counterexample is a model error."""
    import subprocess, shutil as sh
    d = os.path.join(run.tmp, "apalache")
    os.makedirs(d, exist_ok=True)
    sh.copy(os.path.join(vlib.SPEC, "apalache", "MergeQueueApa.tla"), d)
    res = []
    for name, args in (("base", ["--init=Init", "--length=0"]), ("step", ["--init=IndInit", "--length=1"])):
        try:
            p = subprocess.run(["apalache-mc", "check", "--cinit=CInit", "--inv=IndInv"] + args + ["MergeQueueApa.tla"], cwd=d,
                               capture_output=True, text=True, timeout=600)
        except Exception as e:
            run.notes.append("apalache %s case not run: %s" % (name, e))
            return
        if "The outcome is: NoError" in p.stdout:
            res.append(name)
        elif "The outcome is: Error" in p.stdout:
            raise vlib.Infra("Apalache refutes the inductive invariant of MergeQueue (%s case): model error\n%s" % (name, p.stdout[-1500:]))
        else:
            run.notes.append("apalache %s case inconclusive: %s" % (name, (p.stdout + p.stderr)[-300:]))
            return
    run.notes.append("apalache: IndInv of MergeQueueApa.tla (contains MutualExclusion) holds initially and is preserved by every step (%s)" % "+".join(res))

def check(run, replay):
    thorough = run.tier == "thorough"
    if replay:
        # a recorded concurrent history cannot be re-executed deterministically; the replay re-validates it
        viol = []
        if not linearizable(run, replay, "replay", "mutex"):
            viol.append({"property": "C16", "kind": "merges-overlap", "replay": replay, "msg": "recorded history %s: merge critical sections of one document overlap" % replay})
        if not linearizable(run, replay, "replay", "lin"):
            viol.append({"property": "C16", "kind": "not-linearizable", "replay": replay, "msg": "recorded history %s is not linearizable" % replay})
        L = [json.loads(l) for l in open(replay)]
        run.finish("model_checking", viol, {"traces_validated_against_impl": 1, "samples": [L[:8]], "rule": "re-validation of one recorded history"}, ["the history was recorded earlier; it is not re-executed"])
    # design level: the per-document merge queue as coded (wait, then re-check) keeps merges of one document apart and
    # loses no wake-up; the simplification "after the wait the key is mine" is refuted
    MQ = "SPECIFICATION Spec\nCONSTANTS Procs = {procs} Keys = {{\"d1\",\"d2\"}} Rounds = 2 Recheck = {rc}\nINVARIANTS MutualExclusion NoLostWakeup\n{props}CHECK_DEADLOCK FALSE\n"
    st = run.tlc("MergeQueue.tla", "mq_bad.cfg", workers=4, timeout=600, cfg_text=MQ.format(procs="{1,2,3}", rc="FALSE", props=""), expect_violation=True,
                 label="MC_MergeQueue(without the re-check after the wait: must be refuted)")
    if not st["violated"]:
        raise vlib.Infra("the merge-queue model no longer refutes the missing re-check: model drift")
    run.tlc("MergeQueue.tla", "mq.cfg", workers=8, timeout=1500, cfg_text=MQ.format(procs="{1,2,3,4}" if thorough else "{1,2,3}", rc="TRUE", props="PROPERTIES EventuallyFinished\n"),
            label="MC_MergeQueue(as coded)")
    inductive_step(run)
    binary = run.build("concrun", race=True)
    runs = 40 if thorough else 8
    viol, calls, accepted = [], 0, 0
    byres = {}
    samples = []
    races_seen = set()
    lin_infra = []
    for i in range(runs):
        seed = run.seed * 100 + i
        hist = os.path.join(run.tmp, "hist-%d.ndjson" % i)
        stats = os.path.join(run.tmp, "cstats-%d.json" % i)
        args = ["-out", hist, "-stats", stats, "-seed", str(seed), "-g", "8" if i % 2 else "5", "-ops", "8", "-indexchurn=%s" % ("true" if i % 3 == 0 else "false")]
        try:
            log = run.run_driver(binary, args, timeout=600, env={"GORACE": "halt_on_error=0 exitcode=0"})
        except vlib.Crash as c:
            viol.append({"property": "C16", "kind": "crash", "msg": "concurrent calls crashed the node process (seed %d): %s\n%s" % (seed, c.head, c.stack[:2000])})
            continue
        txt = open(log).read()
        for m in re.finditer(r"WARNING: DATA RACE\n(.*?)\n==================", txt, re.S):
            body = m.group(1)
            frames = [l.strip() for l in body.split("\n") if "/repo/" in l or vlib.REPO in l or "defradb/internal" in l or "defradb/net" in l or "defradb/event" in l]
            sig = " | ".join(frames[:4])
            if not vlib.in_repo(body) or sig in races_seen:
                continue
            races_seen.add(sig)
            viol.append({"property": "C16", "kind": "data-race", "msg": "the race detector reports a data race in DefraDB code (seed %d): %s\n%s" % (seed, sig, body[:1800])})
        if re.search(r"^panic: |PANIC in worker", txt, re.M):
            viol.append({"property": "C16", "kind": "panic", "msg": "a concurrent call panicked (seed %d): %s" % (seed, txt[-1500:])})
        s = json.load(open(stats))
        calls += s["calls"]
        for k, v in s["by_result"].items():
            byres[k] = byres.get(k, 0) + v
        L = [json.loads(l) for l in open(hist)]
        if not samples:
            samples = [L[:8]]
        # an error that is neither a conflict nor part of the sequential specification is a lost / corrupted effect
        for e in L:
            if e["ev"] == "ret" and e["res"] in ("err", "panic", "hang"):
                kind = "call-failed:" + e["op"]
                if "corrupted index" in e.get("err", ""):
                    kind = "corrupted-index"
                elif e["op"] == "index" and "already exists" in e.get("err", ""):
                    kind = "index-left-behind"
                churn = "on" if i % 3 == 0 else "off"
                viol.append({"property": "C16", "kind": kind, "msg": "seed %d (index churn %s): %s on %s returned %s: %s" % (seed, churn, e["op"], e["d"], e["res"], e.get("err", ""))})
        if s.get("shared_txn_lost"):
            viol.append({"property": "C16", "kind": "shared-txn-lost", "msg": "seed %d: %s" % (seed, s["shared_txn_lost"])})
        rp = os.path.join(vlib.FOUND, "C16-history-%d.ndjson" % seed)
        if not linearizable(run, hist, str(i), "mutex"):
            os.makedirs(vlib.FOUND, exist_ok=True)
            shutil.copy(hist, rp)
            viol.append({"property": "C16", "kind": "merges-overlap", "replay": rp,
                         "msg": "seed %d: two incoming merges of one document were inside the merge critical section at the same time (marks merge.begin / merge.end recorded by the real goroutines are not properly nested)" % seed})
        try:
            ok = linearizable(run, hist, str(i), "lin")
        except vlib.Infra as e:
            lin_infra.append(str(e)[:300])
            continue
        if ok:
            accepted += 1
        else:
            os.makedirs(vlib.FOUND, exist_ok=True)
            shutil.copy(hist, rp)
            viol.append({"property": "C16", "kind": "not-linearizable", "replay": rp,
                         "msg": "seed %d: no order of the %d recorded calls explains their results (a successful effect is missing or doubled, a conflicting call had an effect, or a read saw an impossible value)" % (seed, s["calls"])})
    if lin_infra and not viol:
        raise vlib.Infra("linearizability search did not complete for %d histories: %s" % (len(lin_infra), lin_infra[0]))
    if lin_infra:
        run.notes.append("linearizability search did not complete for %d histories (other violations are reported)" % len(lin_infra))
    # dedupe
    seen, out = set(), []
    for v in viol:
        k = (v["kind"], v["msg"][:80])
        if k in seen:
            continue
        seen.add(k); out.append(v)
    cov = {"traces_validated_against_impl": runs, "histories_accepted": accepted, "calls": calls, "results": byres, "samples": samples,
           "distinct_races_reported": len(races_seen),
           "rule": "seeded runs of 5 or 8 worker goroutines (increments through requests, reads, creates through the collection API, existence queries, index create/drop in a third of the runs) racing with incoming merges published on the event bus (per-document merge queue and conflict retry) and with two goroutines sharing one NewConcurrentTxn, built with -race; every history (invocation/return per call, global atomic sequence) must be linearizable against the sequential specification; race reports and panics are violations of the first clause"}
    run.finish("model_checking", out, cov,
               ["'no data races' is OBSERVED by the Go race detector on the recorded runs, not decided by the specification; the specification decides linearizability and lost effects",
                "the network layer (replicator table, peer traffic) is not part of these runs yet"])
