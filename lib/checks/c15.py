"""C15: replication eventually delivers every commit across outages. spec/Replicator.tla (TLC: NoStuck for the protocol
with and without its named deviations) + environment schedules replayed on a real loopback libp2p pair, incl. the
interleavings TLC found, forced on the real code with gates."""
import json, os
import vlib

MC = """SPECIFICATION Spec
CONSTANTS Docs = {{1,2}} MaxV = 2 MaxDown = 2 AllowPatch = TRUE
  DurableInbox = {di} SafeMarkDelete = {smd} RetryUsesRootId = TRUE AckIfHeadPresent = {aih}
INVARIANTS TypeOK NoStuck
PROPERTIES BMergedMonotone
CHECK_DEADLOCK FALSE
"""
LIVE = """SPECIFICATION Spec
CONSTANTS Docs = {docs} MaxV = 2 MaxDown = 2 AllowPatch = FALSE
  DurableInbox = {di} SafeMarkDelete = TRUE RetryUsesRootId = TRUE AckIfHeadPresent = FALSE
PROPERTIES EventuallyDelivered
CHECK_DEADLOCK FALSE
"""
GEN = """SPECIFICATION GSpec
CONSTANTS Docs = {{1,2}} MaxV = {maxv} MaxDown = {maxdown} AllowPatch = TRUE DurableInbox = FALSE SafeMarkDelete = TRUE RetryUsesRootId = TRUE AckIfHeadPresent = FALSE
ACTION_CONSTRAINT Export
CHECK_DEADLOCK FALSE
"""

def check(run, replay):
    thorough = run.tier == "thorough"
    binary = run.build("reprun")
    files = []
    if replay:
        files = [replay]
    else:
        # design level. The protocol as coded after the marker fix still acknowledges a push before the merge is durable:
        # TLC must keep finding that counterexample (it is the directed schedule 'ack-then-restart'); with a durable inbox NoStuck holds.
        st = run.tlc("Replicator.tla", "mc_pinned.cfg", workers=8, timeout=900, cfg_text=MC.format(di="FALSE", smd="TRUE", aih="FALSE"), expect_violation=True,
                     label="MC_Replicator(as coded: expected counterexample ack-then-restart)")
        if not st["violated"]:
            raise vlib.Infra("the model of the protocol as coded no longer shows the acknowledged-but-unmerged loss: model drift")
        st = run.tlc("Replicator.tla", "mc_unsafe.cfg", workers=8, timeout=900, cfg_text=MC.format(di="TRUE", smd="FALSE", aih="FALSE"), expect_violation=True,
                     label="MC_Replicator(unconditional marker delete: expected counterexample marker-race)")
        if not st["violated"]:
            raise vlib.Infra("the model no longer refutes the unconditional marker delete: model drift")
        st = run.tlc("Replicator.tla", "mc_dedupe.cfg", workers=8, timeout=900, cfg_text=MC.format(di="TRUE", smd="TRUE", aih="TRUE"), expect_violation=True,
                     label="MC_Replicator(receiver acknowledges a known head without merging: expected counterexample restart-mid-sync)")
        if not st["violated"]:
            raise vlib.Infra("the model no longer refutes acknowledging a stored-but-unmerged head: model drift")
        run.tlc("Replicator.tla", "mc_ok.cfg", workers=8, timeout=1500, cfg_text=MC.format(di="TRUE", smd="TRUE", aih="FALSE"), label="MC_Replicator(durable inbox, safe marker delete)")
        # liveness under weak fairness of the system actions and of B coming back, without any state constraint: once
        # writes and outages stop B catches up. Refuted for the protocol as coded (volatile inbox), holds for the repaired one.
        st = run.tlc("Replicator.tla", "live_pinned.cfg", workers=4, timeout=600, cfg_text=LIVE.format(docs="{1}", di="FALSE"), expect_violation=True,
                     label="LIVE_Replicator(as coded: EventuallyDelivered must be refuted)")
        if not st["violated"]:
            raise vlib.Infra("the liveness property is no longer refuted for the protocol as coded: model drift")
        run.tlc("Replicator.tla", "live_ok.cfg", workers=8, timeout=1200, cfg_text=LIVE.format(docs="{1,2}", di="TRUE"),
                label="LIVE_Replicator(durable inbox: EventuallyDelivered under fairness)")
        out = os.path.join(run.tmp, "rep-sched.ndjson")
        run.tlc("Replicator_gen.tla", "gen.cfg", mode="simulate", workers=1, sim="num=%d" % (40 if thorough else 5), extra=["-depth", "80"], timeout=600,
                env={"VERIF_OUT": out}, cfg_text=GEN.format(maxv=3 if thorough else 2, maxdown=3 if thorough else 2), label="GEN_Replicator(environment schedules)")
        files = [os.path.join(vlib.ROOT, "replays", "replicator", "directed.json")]
        if os.path.exists(out):
            files.append(out)
    viol, n = [], 0
    samples = []
    for i, f in enumerate(files):
        out = os.path.join(run.tmp, "repres-%d.json" % i)
        run.run_driver(binary, ["-sched", f, "-out", out, "-deadline", "30s"], timeout=5000)
        for o in json.load(open(out)):
            n += 1
            if o.get("err"):
                raise vlib.Infra("reprun could not execute schedule %s: %s" % (o["name"], o["err"]))
            if len(samples) < 2:
                samples.append({"name": o["name"], "steps": o["steps"], "delivered": o["delivered"], "waited_s": o["waited_s"]})
            if not o["delivered"]:
                rp = os.path.join(vlib.FOUND, "C15-%s.json" % o["name"])
                os.makedirs(vlib.FOUND, exist_ok=True)
                json.dump([{"name": o["name"], "mode": "pubsub" if o["name"].startswith("pubsub") else "", "steps": o["steps"]}], open(rp, "w"), indent=1)
                viol.append({"property": "C15", "kind": "not-delivered:" + o["name"], "replay": rp,
                             "msg": "schedule %s: traffic stopped and B is reachable, but after %.0fs B still differs from A: %s | steps: %s" % (
                                 o["name"], o["waited_s"], o.get("missing"), json.dumps(o["steps"]))})
    if n == 0:
        raise vlib.Infra("no schedule executed")
    cov = {"traces_validated_against_impl": n, "samples": samples,
           "rule": "environment schedules (writes on A, B unreachable / restarted / back, schema patch) generated by TLC from Replicator.tla plus directed schedules: the two interleavings TLC found in the model (acknowledged-then-restart, failure recorded during a retried push) forced on the real code with gates at merge.begin / retry.pushed, the receiver dying between storing a pushed head block and loading its links (gate sync.head.stored), two separate outages, and the pubsub-subscription configuration; real libp2p peers on 127.0.0.1, retry intervals 200-500 ms; after the schedule B must become equal to A within 30 s"}
    run.finish("model_checking", viol, cov,
               ["on the real code liveness is judged with a deadline (30 s >= 10 turns of the 2 s retry loop); on the specification the safety core NoStuck and the temporal property EventuallyDelivered (weak fairness, no state constraint) are model checked",
                "outages of A itself are outside the property's quantifier and not generated"])
