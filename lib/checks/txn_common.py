"""C06 and C20 share spec/KVTxn.tla, the schedule generator KVTxn_gen and the recorder harness/txnrun;
the recorded traces are validated by TLC against trace/Trace_KVTxn.tla."""
import json, os, re
import vlib

MC = """SPECIFICATION Spec
CONSTANTS
  Docs = {docs}
  Txns = {txns}
  MaxVal = {maxval}
  MaxOps = {maxops}
  Branchable = FALSE
VIEW view
INVARIANTS TypeOK FirstCommitterWins SnapshotStable EventsMatchCommits
PROPERTIES NoDirtyWrite NotifiedOnlyOnCommit DiscardNoTrace
CHECK_DEADLOCK FALSE
"""
GEN = """SPECIFICATION GenSpec
CONSTANTS
  Docs = {docs}
  Txns = {txns}
  MaxVal = {maxval}
  MaxOps = {maxops}
  Branchable = FALSE
VIEW view
ACTION_CONSTRAINT ExportLeaves
CHECK_DEADLOCK FALSE
"""
TRACE = """SPECIFICATION TraceSpec
CONSTANTS
  Docs = {{"d1","d2","d3"}}
  Txns = {{1,2,3}}
  MaxVal = 9
  MaxOps = 0
  Branchable = {branchable}
  CheckEvents = {events}
INVARIANTS TypeOK FirstCommitterWins SnapshotStable
VIEW TraceView
CHECK_DEADLOCK TRUE
"""

def validate(run, trace, events=True, label="trace", branchable=False):
    """Returns None if accepted, else the index (1-based) of the rejected line."""
    st = run.tlc("Trace_KVTxn.tla", "trace_%s.cfg" % label, workers=1, timeout=1200, env={"VERIF_TRACE": trace},
                 cfg_text=TRACE.format(events="TRUE" if events else "FALSE", branchable="TRUE" if branchable else "FALSE"), expect_violation=True,
                 label="Trace_KVTxn(%s,%s)" % (label, "events" if events else "noevents"))
    out = st["out"]
    if "Deadlock reached" in out or "deadlock" in out.lower() and "l =" in out:
        ls = re.findall(r"^/\\ l = (\d+)", out, re.M)
        return int(ls[-1]) if ls else -1
    if st["violated"]:
        ls = re.findall(r"^/\\ l = (\d+)", out, re.M)
        return int(ls[-1]) if ls else -1
    if not st["completed"]:
        raise vlib.Infra("trace validation did not complete:\n" + out[-2000:])
    return None

def schedule_of(trace_lines, idx):
    """the schedule (lines from the preceding reset up to idx) containing line idx (1-based)."""
    start = idx - 1
    while start > 0 and trace_lines[start]["op"] != "reset":
        start -= 1
    end = idx
    while end < len(trace_lines) and trace_lines[end]["op"] != "reset":
        end += 1
    return trace_lines[start:end], idx - start

def binding_selftest(run, trace):
    """A corrupted copy of an accepted trace must be rejected (the trace spec really constrains the code)."""
    L = [json.loads(l) for l in open(trace)]
    done = 0
    for kind in ("rows", "ev"):
        M = json.loads(json.dumps(L))
        hit = None
        for i, l in enumerate(M):
            if kind == "rows" and l["op"] == "query" and l["rows"]:
                l["rows"][0][1] += 1; hit = i + 1; break
            if kind == "ev" and l["op"] in ("update", "create") and l["res"] == "ok" and l["t"] == 0 and l["evs"] and any(l["evs"].values()):
                k0 = sorted(l["evs"])[-1]; l["evs"][k0] = []; hit = i + 1; break
        if hit is None:
            continue
        p = os.path.join(run.tmp, "corrupt-%s.ndjson" % kind)
        with open(p, "w") as f:
            for l in M[:hit + 5]:
                f.write(json.dumps(l) + "\n")
        rej = validate(run, p, True, "selftest-" + kind)
        if rej != hit:
            raise vlib.Infra("binding self-test failed: corrupted line %d (%s) but TLC rejected %s" % (hit, kind, rej))
        done += 1
    return done

def check(run, replay, prop):
    thorough = run.tier == "thorough"
    binary = run.build("txnrun")
    # 1. design level: exhaustive model check
    if not replay:
        run.tlc("KVTxn.tla", "mc.cfg", workers=8, timeout=1500,
                cfg_text=MC.format(docs='{"d1","d2"}', txns="{1,2}", maxval=1, maxops=9 if thorough else 7), label="MC_KVTxn")
        if thorough:
            run.tlc("KVTxn.tla", "mc3.cfg", workers=12, timeout=2400,
                    cfg_text=MC.format(docs='{"d1","d2"}', txns="{1,2,3}", maxval=1, maxops=7), label="MC_KVTxn_3txn")
    # 2. schedules from TLC
    scheds = []
    if replay:
        try:
            rv = json.load(open(replay)).get("variant", "plain")
        except Exception:
            rv = "plain"
        scheds = [(replay, rv)]
    else:
        def gen(tag, n, depth, **kw):
            out = os.path.join(run.tmp, "sched-%s.ndjson" % tag)
            run.tlc("KVTxn_gen.tla", "gen_%s.cfg" % tag, mode="simulate", workers=1, sim="num=%d" % n, extra=["-depth", str(depth)],
                    timeout=900, env={"VERIF_OUT": out}, cfg_text=GEN.format(maxops=depth, **kw), label="GEN_KVTxn_" + tag)
            if not os.path.exists(out):
                raise vlib.Infra("no schedules exported")
            return out
        n = 4000 if thorough else 900
        scheds.append((gen("a", n, 9, docs='{"d1","d2"}', txns="{1,2}", maxval=2), "plain"))
        scheds.append((gen("b", n // 2, 12, docs='{"d1","d2","d3"}', txns="{1,2,3}", maxval=2), "plain"))
        scheds.append((gen("c", n // 3, 9, docs='{"d1","d2"}', txns="{1,2}", maxval=2), "indexed"))
        scheds.append((gen("e", n // 3, 9, docs='{"d1","d2"}', txns="{1,2}", maxval=2), "concurrent"))
        if prop == "C20" or thorough:
            scheds.append((gen("f", n // 4, 9, docs='{"d1","d2"}', txns="{1,2}", maxval=2), "patched"))
            scheds.append((gen("d", n // 3, 9, docs='{"d1","d2"}', txns="{1,2}", maxval=2), "branchable"))
        if thorough:
            # every complete schedule of the bounded generator graph (all interleavings of two transactions)
            out = os.path.join(run.tmp, "sched-all.ndjson")
            run.tlc("KVTxn_gen.tla", "gen_all.cfg", workers=1, timeout=2400, env={"VERIF_OUT": out},
                    cfg_text=GEN.format(docs='{"d1"}', txns="{1,2}", maxval=1, maxops=8), label="GEN_KVTxn_exhaustive")
            scheds.append((out, "plain"))
    # 3. execute on the real node, 4. validate with TLC
    viol, tot = [], dict(schedules=0, lines=0)
    byres = {}
    samples = []
    selftests = 0
    for i, (f, variant) in enumerate(scheds):
        trace = os.path.join(run.tmp, "trace-%d.ndjson" % i)
        stats = os.path.join(run.tmp, "stats-%d.json" % i)
        args = ["-sched", f, "-out", trace, "-stats", stats, "-variant", variant, "-gql", "1" if variant == "patched" else ("4" if prop == "C20" else "12")]
        if replay:
            args += ["-replayfile"]
        if not thorough:
            args += ["-budget", "60s"]
        else:
            args += ["-budget", "240s", "-max", "40000"]
        try:
            run.run_driver(binary, args, timeout=3000)
        except vlib.Crash as c:
            viol.append({"property": prop, "kind": "node-panic", "msg": "DefraDB panicked while executing a schedule: %s\n%s" % (c.head, c.stack[:1500])})
            continue
        s = json.load(open(stats))
        tot["schedules"] += s["schedules"]; tot["lines"] += s["lines"]
        for k, v in s["by_result"].items():
            byres[k] = byres.get(k, 0) + v
        L = [json.loads(l) for l in open(trace)]
        if not samples and L:
            samples = [[{k: v for k, v in l.items() if k in ("op", "t", "d", "v", "res", "rows", "evs")} for l in schedule_of(L, min(3, len(L)))[0]]]
        br = variant == "branchable"
        rej = validate(run, trace, True, "t%d" % i, br)
        if rej is not None:
            rej_noev = validate(run, trace, False, "t%dne" % i, br)
            sched, pos = schedule_of(L, rej)
            line = L[rej - 1]
            # with notifications ignored the trace passes up to / beyond this line => the disagreement is about notifications (C20)
            p = "C20" if (rej_noev is None or rej_noev > rej) else "C06"
            rp = os.path.join(vlib.FOUND, "%s-trace-%d-%d.json" % (p, run.seed, i))
            os.makedirs(vlib.FOUND, exist_ok=True)
            json.dump({"schedule": [{k: l[k] for k in ("op", "t", "d", "v")} for l in sched[1:]], "recorded": sched, "rejected_line": pos, "variant": variant}, open(rp, "w"), indent=1)
            viol.append({"property": p, "kind": "trace-rejected:" + line["op"], "replay": rp,
                         "msg": "variant %s: recorded call %s is not a behaviour of KVTxn (line %d of its schedule): %s" % (variant, json.dumps(line), pos, json.dumps(sched[1:pos + 1])[:1500])})
        elif not replay and selftests == 0:
            selftests = binding_selftest(run, trace)
    if tot["schedules"] == 0 and not viol:
        raise vlib.Infra("no schedule executed")
    if not replay and byres.get("commit:conflict", 0) == 0:
        run.notes.append("no conflict was observed in this run")
    mine = [v for v in viol if v["property"] == prop]
    other = [v for v in viol if v["property"] != prop]
    if other:
        run.notes.append("rejections attributed to other properties: %s" % [(v["property"], v["kind"]) for v in other])
    cov = {"traces_validated_against_impl": tot["schedules"], "trace_lines": tot["lines"], "results": byres, "samples": samples or [["none"]],
           "binding_selftests": selftests,
           "rule": "schedules of API calls from TLC (simulation of KVTxn_gen; thorough: also every complete schedule of a bounded graph), executed on a fresh real node each; the recorded trace (results, rows, notifications per subscriber) must be a behaviour of KVTxn"}
    return mine, cov

ASSUME = ["one goroutine executes the schedule, so the interleaving of calls is exactly the one TLC chose",
          "badger in-memory store (the repository's integration-test default)",
          "a conflict is accepted whenever another write transaction committed since Begin; it is REQUIRED when the write sets intersect"]
