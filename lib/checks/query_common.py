"""C07/C08 share spec/Query.tla (reference semantics), the case generator QueryGen and harness/queryrun."""
import json, os
import vlib

GEN = """SPECIFICATION Spec
CONSTANTS NDocs = {ndocs}
ACTION_CONSTRAINT Export
CHECK_DEADLOCK FALSE
"""

def model_check_laws(run, thorough):
    """The reference semantics is itself model checked: algebraic laws over every collection of <= 3 documents."""
    st = run.tlc("QueryLaws.tla", "MC_QueryLaws_broken.cfg", workers=8, timeout=600, expect_violation=True,
                 label="MC_QueryLaws(with a wrong null comparison substituted: must be refuted)")
    if not st["violated"]:
        raise vlib.Infra("the laws of the query semantics no longer refute a wrong comparison operator: vacuous laws")
    run.tlc("QueryLaws.tla", "MC_QueryLaws_mid.cfg" if thorough else "MC_QueryLaws.cfg", workers=12, timeout=1800,
            label="MC_QueryLaws(%s domains, every collection of <= 3 documents)" % ("4-value" if thorough else "3-value"))

def gen_cases(run, n, ndocs=5, tag="q"):
    out = os.path.join(run.tmp, "cases-%s.ndjson" % tag)
    run.tlc("QueryGen.tla", "gen_%s.cfg" % tag, mode="simulate", workers=1, sim="num=1", extra=["-depth", str(n)], timeout=1800,
            env={"VERIF_OUT": out}, cfg_text=GEN.format(ndocs=ndocs), label="QueryGen(%s,%d cases)" % (tag, n))
    if not os.path.exists(out):
        raise vlib.Infra("no query cases exported")
    return out

def run_cases(run, binary, cases, extra, budget):
    out = os.path.join(run.tmp, "qres-%d.json" % len(os.listdir(run.tmp)))
    run.run_driver(binary, ["-cases", cases, "-out", out] + extra + (["-budget", budget] if budget else []), timeout=4000)
    return json.load(open(out))

def to_violations(prop, res):
    v = []
    for m in res.get("mismatches") or []:
        v.append({"property": prop, "kind": "%s:%s" % (m["kind"], m.get("index", "")), "request": m["request"],
                  "msg": "[index set %s] %s -> %s" % (m.get("index"), m["request"], m["msg"]), "case": m.get("case_data")})
    return v
