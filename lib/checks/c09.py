"""C09: relations read the same from both sides. spec/Relations.tla + harness/cmd/relrun under index configurations."""
import json, os
import vlib

MC = """SPECIFICATION Spec
CONSTANTS Parents = {parents} Children = {children} MaxRating = {rating} MaxSteps = {steps} OneToOne = {oto}
VIEW view
{body}
CHECK_DEADLOCK FALSE
"""

def check(run, replay):
    thorough = run.tier == "thorough"
    binary = run.build("relrun")
    plans = []
    if replay:
        o = json.load(open(replay))
        plans = [(replay, bool(o.get("onetoone")))]
    else:
        for oto in ("FALSE", "TRUE"):
            run.tlc("Relations.tla", "mc_%s.cfg" % oto, workers=8, timeout=1500,
                    cfg_text=MC.format(parents='{"a1","a2"}', children='{"b1","b2"}', rating=2, steps=7 if thorough else 6, oto=oto, body="INVARIANTS BothSidesAgree OneHolder"),
                    label="MC_Relations(OneToOne=%s)" % oto)
            out = os.path.join(run.tmp, "rel-%s.ndjson" % oto)
            run.tlc("Relations_gen.tla", "gen_%s.cfg" % oto, mode="simulate", workers=1, sim="num=%d" % (400 if thorough else 50), extra=["-depth", "12"], timeout=900,
                    env={"VERIF_OUT": out},
                    cfg_text=MC.format(parents='{"a1","a2","a3"}', children='{"b1","b2","b3","b4"}', rating=3, steps=12, oto=oto, body="ACTION_CONSTRAINT ExportLeaves"),
                    label="GEN_Relations(OneToOne=%s)" % oto)
            if not os.path.exists(out):
                raise vlib.Infra("no Relations behaviours exported")
            plans.append((out, oto == "TRUE"))
    viol, tot = [], dict(behaviours=0, steps=0, queries=0)
    for i, (f, oto) in enumerate(plans):
        out = os.path.join(run.tmp, "relres-%d.json" % i)
        args = ["-beh", f, "-out", out] + (["-onetoone"] if oto else []) + ([] if replay else ["-budget", "300s" if thorough else "50s"])
        try:
            run.run_driver(binary, args, timeout=4000)
        except vlib.Crash as c:
            viol.append({"kind": "node-panic", "msg": "DefraDB panicked on a relation query: %s\n%s" % (c.head, c.stack[:1500])})
            continue
        r = json.load(open(out))
        if r.get("harness_errors"):
            raise vlib.Infra("relrun: " + r["harness_errors"][0])
        for k in tot:
            tot[k] += r.get(k, 0) or 0
        for v in r.get("violations") or []:
            viol.append({"kind": v["kind"], "msg": "[%s, indexes: %s] step %d: %s" % ("one-to-one" if oto else "one-to-many", v["variant"], v["step"], v["msg"]),
                         "behaviour_data": v.get("behaviour_data"), "onetoone": oto})
    if tot["behaviours"] == 0 and not viol:
        raise vlib.Infra("nothing replayed")
    for v in viol:
        v["property"] = "C09"
    sample = [["replay"]]
    if not replay:
        import vshow
        L = vshow.load(plans[0][0], maximal=False)
        sample = [[{k: s[k] for k in ("op", "p", "c", "r", "res")} for s in L[0]]]
    cov = {"traces_validated_against_impl": tot["behaviours"], "steps": tot["steps"], "queries": tot["queries"], "samples": sample,
           "rule": "TLC behaviours of Relations.tla (create parents/children with or without a link, link / relink / unlink, change the child's scalar, delete either side) for one-to-many and one-to-one; each behaviour runs without indexes and under one of {foreign key, child scalar, parent name, all} indexed; after every step 11 query shapes (parent side, child side, filters through the relation from both sides, foreign-key filter, docID + relation filter, parent filter + relation filter, != through the relation, counts and sums over the relation, order through the relation) must equal the values derived from the foreign keys alone; a write that would give a one-to-one link a second holder must be refused"}
    run.finish("model_checking", viol, cov, ["two collections Author/Book; two-hop and self-referencing topologies are exercised by C18 only"])
