"""C17: index key encoding preserves value order and loses nothing. spec/KeyOrder.tla is a constant-level case table
evaluated by TLC (all ordered pairs per kind x direction, composite tuples x per-component directions)."""
import json, os
import vlib

def check(run, replay):
    binary = run.build("keyorder")
    prefix = os.path.join(run.tmp, "keycases")
    st = run.tlc("KeyOrder.tla", "k.cfg", workers=1, timeout=900, env={"VERIF_OUT": prefix}, cfg_text="SPECIFICATION Spec\n", label="KeyOrder(case table)")
    if not os.path.exists(prefix + ".pairs"):
        raise vlib.Infra("KeyOrder produced no case table")
    out = os.path.join(run.tmp, "keyres.json")
    run.run_driver(binary, ["-cases", prefix, "-out", out], timeout=900)
    r = json.load(open(out))
    viol = []
    for m in r.get("mismatches") or []:
        viol.append({"property": "C17", "kind": m["kind"], "msg": m["msg"], "case": m["case"]})
    pairs = [json.loads(l) for l in open(prefix + ".pairs").read().split("\n")[:3] if l.strip()]
    tuples = [json.loads(l) for l in open(prefix + ".tuples").read().split("\n")[:2] if l.strip()]
    # the case table is a finite set evaluated completely; states/transitions describe the TLC evaluation of the module
    run.tlc_stats[-1]["distinct"] = r["pairs"] + r["tuples"]
    run.tlc_stats[-1]["generated"] = r["pairs"] + r["tuples"]
    cov = {"traces_validated_against_impl": r["pairs"] + r["tuples"], "pairs": r["pairs"], "tuples": r["tuples"], "round_trips": r["round_trips"],
           "samples": pairs + tuples, "exhaustive": True,
           "rule": "every ordered pair of representatives (plus null) per kind x asc/desc: sign(bytes.Compare(Encode(a),Encode(b))) must equal the value order; the same through complete index keys; composite 2-tuples over reduced chains x 4 direction combinations; Decode(Encode(v)) = v bit-exact / ns-exact. states/transitions = number of table rows"}
    run.finish("model_checking", viol, cov,
               ["finite representative domain (boundary cases of each encoder), not all 2^64 values: a fault that affects only non-boundary bit patterns is out of reach",
                "JSON scalars inside JSON-indexed fields are not in the table yet"])
