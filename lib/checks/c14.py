"""C14: a restarted node is indistinguishable from one that never stopped. spec/NodeOps.tla (+ twin node) for data, schema
and index state; spec/ReplConfig.tla for the replicator configuration, replayed on real libp2p peers."""
import json, os
import vlib
from checks import node_common as nc

RC = """SPECIFICATION Spec
CONSTANTS Peers = {{"B","C"}} Cols = {{"User","Book"}} MaxDocs = {docs} MaxSteps = {steps}
{body}
CHECK_DEADLOCK FALSE
"""

def repl_config(run, replay, thorough):
    binary = run.build("replcfgrun")
    out = os.path.join(run.tmp, "replcfg.json")
    if replay:
        src = replay
    else:
        run.tlc("ReplConfig.tla", "mc_rc.cfg", workers=4, timeout=600,
                cfg_text=RC.format(docs=3, steps=7 if thorough else 6, body="VIEW view\nINVARIANTS OnlyConfigured\nPROPERTIES RestartInvisible"), label="MC_ReplConfig")
        src = os.path.join(run.tmp, "replcfg.ndjson")
        run.tlc("ReplConfig_gen.tla", "gen_rc.cfg", mode="simulate", workers=1, sim="num=%d" % (20000 if thorough else 4000), extra=["-depth", "7"], timeout=600,
                env={"VERIF_OUT": src}, cfg_text=RC.format(docs=4, steps=7, body="ACTION_CONSTRAINT ExportInteresting"), label="GEN_ReplConfig")
        if not os.path.exists(src):
            raise vlib.Infra("no replicator-configuration behaviours exported")
    run.run_driver(binary, ["-beh", src, "-out", out] + ([] if replay else ["-budget", "400s" if thorough else "60s"]), timeout=4000)
    r = json.load(open(out))
    if r.get("harness_errors"):
        raise vlib.Infra("replcfgrun: " + r["harness_errors"][0])
    return r

def check(run, replay):
    thorough = run.tier == "thorough"
    is_rc = False
    if replay:
        try:
            is_rc = "cfg" in json.dumps(json.load(open(replay)).get("behaviour_data", [{}])[0].get("obs", {}))
        except Exception:
            is_rc = False
    mine, cov = ([], {"traces_validated_against_impl": 0, "samples": [["replay"]]}) if is_rc else nc.check(run, replay, "C14")
    if not replay or is_rc:
        r = repl_config(run, replay if is_rc else None, thorough)
        mine += r.get("violations") or []
        cov["traces_validated_against_impl"] += r["behaviours"]
        cov["replicator_config_behaviours"] = r["behaviours"]
        cov["replicator_config_restarts"] = r["restarts"]
        cov["rule"] = cov.get("rule", "") + " | ReplConfig.tla: SetReplicator / DeleteReplicator per peer and collection, writes, Restart at any position, replayed on three real libp2p peers: after every step GetAllReplicators equals the specification's configuration, every peer receives the documents it is owed within 12 s and holds no document of a collection never replicated to it"
    run.finish("model_checking", mine, cov, nc.ASSUME)
