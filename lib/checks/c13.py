"""C13: identifiers are pure functions of content. spec/Identity.tla (route tables evaluated by TLC) + execution of every route."""
import json, os
import vlib

def check(run, replay):
    thorough = run.tier == "thorough"
    binary = run.build("identrun")
    prefix = os.path.join(run.tmp, "routes")
    run.tlc("Identity.tla", "k.cfg", workers=1, timeout=600, env={"VERIF_OUT": prefix}, cfg_text="SPECIFICATION Spec\n", label="Identity(route tables)")
    if not os.path.exists(prefix + ".docs"):
        raise vlib.Infra("no routes exported")
    out = os.path.join(run.tmp, "identres.json")
    run.run_driver(binary, ["-routes", prefix, "-out", out, "-reps", "6" if thorough else "2"], timeout=3000)
    r = json.load(open(out))
    viol = [{"property": "C13", "kind": p["kind"], "msg": p["msg"]} for p in (r.get("problems") or [])]
    ndoc = sum(1 for _ in open(prefix + ".docs")); nsch = sum(1 for _ in open(prefix + ".schemas"))
    run.tlc_stats[-1]["distinct"] = ndoc + nsch; run.tlc_stats[-1]["generated"] = ndoc + nsch
    samples = [json.loads(open(prefix + ".docs").readline()), json.loads(open(prefix + ".schemas").readline())]
    cov = {"traces_validated_against_impl": r["doc_runs"] + r["schema_runs"], "document_routes": ndoc, "schema_routes": nsch,
           "schema_routes_refused_by_the_database": r["schema_routes_refused"], "samples": samples, "exhaustive": True,
           "rule": "documents: 36 contents x 4 field orders x {JSON, map, GraphQL} x {null explicit, null omitted}, each on a fresh node, repeated; same Key(content) <=> same docID. schemas: 7 type graphs (isolated, one-many, mutual, self reference, triangle, cycle with tail, four types) x every permutation x every split into successive AddSchema calls; all accepted routes must assign the same version/collection ids and field kinds. states/transitions = number of routes"}
    run.finish("model_checking", viol, cov,
               ["the route tables are finite and executed completely; value kinds: String, Int, Float, Boolean",
                "routes the database refuses (a type referencing a type that is not yet known) are counted, not judged"])
