"""C11: encrypted fields never leave the node in clear."""
import json, os
import vlib
from checks import crypto_common as cc

def check(run, replay):
    thorough = run.tier == "thorough"
    binary = run.build("cryptorun")
    src = replay or cc.prepare(run, thorough)
    out = os.path.join(run.tmp, "cres.json")
    args = ["-enc", src, "-out", out]
    if not replay and not thorough:
        # every complete behaviour of the bounded model is exported (a few thousand); the quick tier replays a seeded stride
        args += ["-budget", "100s", "-stride", "7", "-offset", str(run.seed % 7)]
    elif not replay:
        args += ["-budget", "900s", "-stride", "3", "-offset", str(run.seed % 3)]
    run.run_driver(binary, args, timeout=5000)
    r = json.load(open(out))
    if not replay:
        # the behaviours with a key-less peer write (a smaller table): all of them, within a budget
        outp = os.path.join(run.tmp, "cres-peer.json")
        argsp = ["-enc", os.path.join(run.tmp, "crypto-peer.ndjson"), "-out", outp]
        if not thorough:
            argsp += ["-budget", "80s", "-stride", "2", "-offset", str(run.seed % 2)]
        else:
            argsp += ["-budget", "600s"]
        run.run_driver(binary, argsp, timeout=5000)
        rp = json.load(open(outp))
        for k, v in rp.items():
            if isinstance(v, int):
                r[k] = r.get(k, 0) + v
            elif isinstance(v, list):
                r[k] = (r.get(k) or []) + v
    if r.get("harness_errors"):
        raise vlib.Infra("cryptorun: " + r["harness_errors"][0])
    viol = [v for v in (r.get("violations") or []) if v["property"] == "C11"]
    if r["behaviours"] == 0:
        raise vlib.Infra("no behaviour replayed")
    if r["plain_tokens_found_as_expected"] == 0 and r["behaviours"] > 20:
        raise vlib.Infra("no unencrypted value was ever found by the scan (vacuous)")
    sample = []
    if not replay:
        sample = [json.loads(json.loads(open(src).readline()))["hist"]]
    cov = {"traces_validated_against_impl": r["behaviours"], "writes": r["writes"], "block_scans": r["block_scans"],
           "plain_tokens_found_as_expected": r["plain_tokens_found_as_expected"],
           "peer_writes_merged": r.get("peer_writes_merged", 0), "peer_writes_refused": r.get("peer_writes_refused", 0), "samples": sample or [["replay"]],
           "rule": "every complete behaviour of Crypto.tla (mode none/doc/each non-empty field subset x fields written at creation x up to 2-3 updates of any field subset); each written value is a unique byte pattern; after every step the block store and every update notification are scanned: patterns of covered fields must be absent, of uncovered fields present; the owner and a receiver given the keys read back the exact values; a receiver without keys stores no pattern of a covered field; in part of the behaviours a peer without keys writes a field itself and the owner merges it (sequentially or concurrently with an own update) before its next updates; the list of encrypted fields is passed in both orders"}
    run.finish("model_checking", viol, cov,
               ["symbolic cryptography: AES-GCM itself is trusted; what is checked is which payloads are encrypted and where plaintext can be found",
                "the KMS role on the receiver is played by the harness on the node's event bus"])
