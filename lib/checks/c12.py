"""C12: signatures authenticate content and author; forged commits are not merged."""
import json, os
import vlib
from checks import crypto_common as cc

def check(run, replay):
    thorough = run.tier == "thorough"
    binary = run.build("cryptorun")
    src = cc.prepare(run, thorough)
    out = os.path.join(run.tmp, "sres.json")
    run.run_driver(binary, ["-sig", src + ".sig", "-out", out], timeout=3000)
    r = json.load(open(out))
    if r.get("harness_errors"):
        raise vlib.Infra("cryptorun: " + r["harness_errors"][0])
    viol = [v for v in (r.get("violations") or []) if v["property"] == "C12"]
    if r["signature_cases"] == 0:
        raise vlib.Infra("no signature case executed")
    cases = [json.loads(l) for l in open(src + ".sig").read().strip().split("\n")[:3]]
    cov = {"traces_validated_against_impl": r["signature_cases"], "verifications": r["verifications"], "samples": cases, "exhaustive": True,
           "rule": "SigCases of Crypto.tla: 13 tamper kinds (none, delta payload, priority, docID, link name, schema version, heads, links, signature value / identity / type, signature swapped with another commit's, signature removed) x signer x verifier, for secp256k1 and ed25519; VerifySignature on every composite and first field commit must succeed exactly for the author's key; every tampered head is offered to a fresh receiver through the network layer's DAG sync (hook VerifSyncDAG) and must be refused with documents, history and heads unchanged, the untampered control accepted"}
    run.finish("model_checking", viol, cov,
               ["signature primitives are trusted (symbolic model); a block whose signature link is removed is an unsigned block and is accepted by design",
                "field commits above height 1 are unsigned by design and authenticated through the signed composite's links"])
