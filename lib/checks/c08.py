"""C08: query results follow the documented semantics (oracle spec/Query.tla); no request panics or hangs."""
import json, os
import vlib
from checks import query_common as qc

def check(run, replay):
    thorough = run.tier == "thorough"
    binary = run.build("queryrun")
    if not replay:
        qc.model_check_laws(run, thorough)
    n = 10000 if thorough else 2500
    cases = gen_cases = qc.gen_cases(run, n, 5, "a")
    cases6 = qc.gen_cases(run, n // 3, 7, "b")
    viol = []
    tot = dict(executed=0)
    bykind = {}
    samples = []
    for f in (cases, cases6):
        try:
            res = qc.run_cases(run, binary, f, [], "500s" if thorough else "70s")
        except vlib.Crash as c:
            viol.append({"kind": "node-panic", "msg": "DefraDB died while answering a query: %s\n%s" % (c.head, c.stack[:1500])})
            continue
        tot["executed"] += res["executed"]
        for k, v in (res.get("by_kind") or {}).items():
            bykind[k] = bykind.get(k, 0) + v
        viol += qc.to_violations("C08", res)
        if not samples:
            L = [json.loads(json.loads(l)) for l in open(f).read().strip().split("\n")[:2]]
            samples = [{"docs": c["docs"], "q": c["q"], "expect": c["expect"]} for c in L]
    # no-panic clause: mutated requests and every root field on signed data. A request that kills the process cannot be
    # recovered in-process: the driver leaves the request in a progress file.
    np_total, np_ops = 0, {}
    skip = []
    for attempt in range(4):
        out = os.path.join(run.tmp, "np-%d.json" % attempt)
        prog = os.path.join(run.tmp, "np-progress-%d.txt" % attempt)
        args = ["-cases", cases, "-nopanic", "-out", out, "-seed", str(run.seed), "-progress", prog, "-max", str(8000 if thorough else 2500)]
        if skip:
            args += ["-skipops", ",".join(skip)]
        try:
            run.run_driver(binary, args, timeout=3000)
        except (vlib.Crash, vlib.Infra) as c:
            if os.path.exists(prog):
                op, _, req = open(prog).read().partition("\n")
                head = getattr(c, "head", str(c)[:300])
                viol.append({"kind": "process-died:" + op, "request": req, "msg": "the node process died (%s) while answering the request: %s" % (head, req[:500])})
                skip.append(op)
                continue
            raise
        r = json.load(open(out))
        np_total = r["requests"]; np_ops = r["by_op"]
        for cr in r.get("crashes") or []:
            viol.append({"kind": cr["kind"], "request": cr["request"], "msg": "%s -> %s" % (cr["request"][:400], cr["msg"][:900])})
        break
    if tot["executed"] == 0:
        raise vlib.Infra("no query case executed")
    for v in viol:
        v["property"] = "C08"
    cov = {"traces_validated_against_impl": tot["executed"], "cases_by_kind_and_filter_shape": bykind, "no_panic_requests": np_total,
           "no_panic_by_mutation_operator": np_ops, "samples": samples,
           "rule": "TLC (QueryGen, simulation) draws document sets and query programs (filters of depth <=2 over 10 operators, 0-2 order keys, limit/offset, 5 aggregates, groupBy) and evaluates Result(docs,q) with the reference semantics of spec/Query.tla; each case is executed on a fresh real node; ordered results are compared as sort-key sequences. No-panic clause: 20 mutation operators applied to the rendered requests + every root field with selection-set variants on signed data"}
    run.finish("model_checking", viol, cov,
               ["the reference semantics is the reading of docs/website/references/query-specification recorded in the header of spec/Query.tla; operator/kind combinations whose meaning the documentation leaves open are not generated (ordering operators on strings and booleans, a lone % pattern, average of nothing)",
                "request strings are those of the spec's grammar plus the listed mutation operators, not arbitrary bytes"])
