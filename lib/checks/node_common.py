"""C14 and C19 share spec/NodeOps.tla and harness/noderun (restarted node + never-restarted twin + spec observation)."""
import json, os
import vlib

MC = """SPECIFICATION Spec
CONSTANTS Docs = {docs} MaxVer = {maxver} MaxVal = {maxval} MaxSteps = {steps} IndexOpsAnytime = {anytime}
VIEW view
{body}
CHECK_DEADLOCK FALSE
"""

def check(run, replay, prop):
    thorough = run.tier == "thorough"
    binary = run.build("noderun")
    files = []
    if replay:
        files = [replay]
    else:
        run.tlc("NodeOps.tla", "mc.cfg", workers=8, timeout=1500,
                cfg_text=MC.format(docs="{1,2}", maxver=3, maxval=1, steps=8 if thorough else 6, anytime="TRUE", body="INVARIANTS AddedFieldsStartNull\nPROPERTIES SchemaOpsKeepData RestartInvisible"), label="MC_NodeOps")
        for tag, steps, n, anytime in (("a", 12, 600 if thorough else 120, "FALSE"), ("b", 20, 300 if thorough else 60, "FALSE"), ("idx", 12, 80 if thorough else 24, "TRUE")):
            out = os.path.join(run.tmp, "node-%s.ndjson" % tag)
            run.tlc("NodeOps_gen.tla", "gen_%s.cfg" % tag, mode="simulate", workers=1, sim="num=%d" % n, extra=["-depth", str(steps)], timeout=900,
                    env={"VERIF_OUT": out}, cfg_text=MC.format(docs="{1,2,3}", maxver=4, maxval=2, steps=steps, anytime=anytime, body="ACTION_CONSTRAINT ExportLeaves"), label="GEN_NodeOps_" + tag)
            if not os.path.exists(out):
                raise vlib.Infra("no NodeOps behaviours exported")
            files.append(out)
        # every shape of the version tree and every walk of the active version over it (exhaustive, schema operations only)
        out = os.path.join(run.tmp, "node-schema.ndjson")
        run.tlc("NodeOps_gen.tla", "gen_schema.cfg", workers=4, timeout=900, env={"VERIF_OUT": out},
                cfg_text=MC.format(docs="{1}", maxver=4, maxval=0, steps=8 if thorough else 7, anytime="FALSE", body="ACTION_CONSTRAINT ExportLeaves").replace("SPECIFICATION Spec", "SPECIFICATION SchemaSpec").replace("VIEW view\n", ""),
                label="GEN_NodeOps_schema(exhaustive)")
        if not os.path.exists(out):
            raise vlib.Infra("no schema-only behaviours exported")
        files.append(out)
    viol, tot = [], dict(behaviours=0, steps=0, restarts=0, comparisons=0)
    byop = {}
    for i, f in enumerate(files):
        out = os.path.join(run.tmp, "noderes-%d.json" % i)
        try:
            extra = [] if replay else ["-budget", "300s" if thorough else "40s"]
            if f.endswith("node-schema.ndjson") and not thorough:
                extra += ["-stride", "3", "-offset", str(run.seed % 3)]
            run.run_driver(binary, ["-beh", f, "-out", out] + extra, timeout=4000)
        except vlib.Crash as c:
            viol.append({"property": prop, "kind": "node-panic", "msg": "DefraDB panicked (restart / schema evolution run): %s\n%s" % (c.head, c.stack[:1500])})
            continue
        r = json.load(open(out))
        if r.get("harness_errors"):
            raise vlib.Infra("noderun: " + r["harness_errors"][0])
        for k in tot:
            tot[k] += r.get(k, 0) or 0
        for k, v in (r.get("by_op") or {}).items():
            byop[k] = byop.get(k, 0) + v
        viol += r.get("violations") or []
    if tot["behaviours"] == 0 and not viol:
        raise vlib.Infra("nothing replayed")
    mine = [v for v in viol if v["property"] == prop]
    other = [v for v in viol if v["property"] != prop]
    if other:
        run.notes.append("violations attributed to the sibling property: %s" % [(v["property"], v["kind"]) for v in other][:5])
    sample = [["replay"]]
    if not replay:
        import vshow
        L = vshow.load(files[0], maximal=False)
        sample = [[{k: s[k] for k in ("op", "d", "f", "v", "k")} for s in L[0]]]
    cov = {"traces_validated_against_impl": tot["behaviours"], "steps": tot["steps"], "restarts": tot["restarts"], "comparisons": tot["comparisons"], "by_op": byop, "samples": sample,
           "rule": "TLC behaviours of NodeOps.tla (create/update/delete, add-field patches with and without activation, switches of the active version, index create/drop, Restart at any position); the real node is closed and reopened on its store at every Restart and compared after EVERY step with a never-restarted twin (full logical dump: collection versions, ids, indexes, documents incl. deleted, index-served query, commit history) and with the specification's observation"}
    return mine, cov

ASSUME = ["the store survives the restart behind a wrapper whose Close is a no-op (badger in-memory); crash points inside an operation and the local ACP / peer stores are not explored by this check",
          "one collection, Int fields, up to three schema versions"]
