import json
def load(path, maximal=True):
    rows=[]
    txt=open(path).read().strip()
    if txt.startswith('{'):
        return [json.loads(txt)["behaviour_data"]]
    for l in txt.split("\n"):
        l=l.strip()
        if not l: continue
        if l[0]=='"':
            inner=l[1:-1]
            inner=json.loads(l) if '\\"' in inner else inner.replace('""','"')
        else: inner=l
        rows.append(json.loads(inner))
    if not maximal: return rows
    mx=[];prev=None
    for b in rows:
        if prev is not None and len(b)==len(prev)+1: prev=b; continue
        if prev is not None: mx.append(prev)
        prev=b
    if prev is not None: mx.append(prev)
    return mx
def brief(b):
    out=[]
    for s in b:
        e={"a":s["a"],"n":s["n"],"c":s["c"]}
        for k in ("cw","rw"):
            if k in s and isinstance(s[k],dict): e[k]={f:v for f,v in s[k].items() if v!=-99}
        o=s["obs"]; e["expect"]={"ctr":o["ctr"],"regAllowed":o["regAllowed"],"del":o["del"],"heads":o["heads"],"mrg":o["mrg"]}
        out.append(e)
    return out
def sample(path,n):
    bs=load(path)
    bs=sorted(bs,key=len,reverse=True)[:n]
    return [brief(b) for b in bs]
