"""Shared machinery of bin/check: TLC runner, harness builder, evidence writer, known-findings filter."""
import json, os, re, shutil, subprocess, sys, tempfile, time, hashlib

ROOT = os.path.dirname(os.path.dirname(os.path.abspath(__file__)))
REPO = os.environ.get("VERIF_REPO", "/repo")
SPEC = os.path.join(ROOT, "spec")
HARNESS = os.path.join(ROOT, "harness")
EVID = os.environ.get("VERIF_EVID_DIR") or os.path.join(ROOT, "evidence")
FOUND = os.path.join(os.environ.get("VERIF_EVID_DIR") or os.path.join(ROOT, "replays"), "found")


class Infra(Exception):
    """Infrastructure failure: exit 2, never a violation."""


def goenv():
    e = dict(os.environ)
    e["GOFLAGS"] = "-mod=mod"
    e["GOPROXY"] = "off"
    e.pop("GOSUMDB", None)
    e.pop("GOTOOLCHAIN", None)
    e.setdefault("LOG_LEVEL", "error")
    return e


class Crash(Exception):
    """The process under test died with a Go panic whose stack is inside /repo: real-code behaviour."""

    def __init__(self, head, stack, args):
        Exception.__init__(self, head)
        self.head, self.stack, self.args_ = head, stack, args


class Run:
    """One invocation of a check: scratch dir, seed, tier, timers."""

    def __init__(self, prop, tier):
        self.prop = prop
        self.tier = tier
        self.seed = int(os.environ.get("VERIF_SEED", "1"))
        self.t0 = time.time()
        self.tmp = tempfile.mkdtemp(prefix="verif-%s-" % prop, dir=os.environ.get("VERIF_TMP", "/tmp"))
        self.tlc_stats = []  # per TLC run
        self.notes = []

    def cleanup(self):
        if os.environ.get("VERIF_KEEP_TMP"):
            print("kept", self.tmp)
            return
        shutil.rmtree(self.tmp, ignore_errors=True)

    # ---------------------------------------------------------------- Go harness
    def build(self, cmd, race=False, tags="verif"):
        """go build ./cmd/<cmd> against the current /repo tree; returns the binary path."""
        hdir = HARNESS
        if os.path.realpath(REPO) != "/repo":
            # development aid (mutant sweeps on scratch copies of the repository): build a private copy of the
            # harness whose replace directive points at $VERIF_REPO. Registered commands always use /repo.
            hdir = os.path.join(self.tmp, "harness")
            if not os.path.isdir(hdir):
                shutil.copytree(HARNESS, hdir, ignore=shutil.ignore_patterns("bin"))
        # the harness module mirrors the repository's requirements (identical, offline module resolution)
        subprocess.run([os.path.join(ROOT, "bin", "genmod"), REPO, hdir], check=True)
        shutil.copyfile(os.path.join(REPO, "go.sum"), os.path.join(hdir, "go.sum"))
        out = os.path.join(self.tmp, cmd + ("-race" if race else ""))
        args = ["go", "build", "-tags", tags, "-o", out]
        if race:
            args.insert(2, "-race")
        args.append("./cmd/" + cmd)
        p = subprocess.run(args, cwd=hdir, env=goenv(), capture_output=True, text=True, timeout=1500)
        if p.returncode != 0:
            raise Infra("harness build failed:\n" + p.stdout + p.stderr)
        return out

    def run_driver(self, binary, args, timeout, env=None):
        e = goenv()
        if env:
            e.update(env)
        log = os.path.join(self.tmp, "driver-%d.log" % len(os.listdir(self.tmp)))
        with open(log, "w") as lf:
            try:
                p = subprocess.run([binary] + args, env=e, stdout=lf, stderr=subprocess.STDOUT, timeout=timeout)
            except subprocess.TimeoutExpired:
                raise Infra("driver timed out after %ss: %s" % (timeout, " ".join(args)))
        if p.returncode != 0:
            txt = open(log).read()
            m = re.search(r"^(panic: .*|fatal error: .*)$", txt, re.M)
            if m and in_repo(txt[m.start():m.start() + 6000]):
                # the real code panicked in one of its own goroutines and took the process down
                raise Crash(m.group(1), txt[m.start():m.start() + 6000], args)
            raise Infra("driver exited %d: %s\n%s" % (p.returncode, " ".join(args), txt[-3000:]))
        return log

    # ---------------------------------------------------------------- TLC
    def tlc(self, module, cfg, mode="check", workers=8, timeout=600, sim=None, env=None, expect_violation=False,
            extra=None, depthfirst=False, cfg_text=None, label=None):
        """Run TLC in a scratch copy of spec/. Returns dict(states, distinct, ok, violated, out)."""
        d = tempfile.mkdtemp(prefix="tlc-", dir=self.tmp)
        for f in os.listdir(SPEC):
            p = os.path.join(SPEC, f)
            if os.path.isfile(p):
                shutil.copy(p, d)
        if os.path.isdir(os.path.join(SPEC, "trace")):
            for f in os.listdir(os.path.join(SPEC, "trace")):
                shutil.copy(os.path.join(SPEC, "trace", f), d)
        if cfg_text is not None:
            with open(os.path.join(d, cfg), "w") as f:
                f.write(cfg_text)
        args = ["tlc", "-workers", str(workers), "-metadir", os.path.join(d, "md"), "-config", cfg]
        if mode == "simulate":
            args += ["-simulate", sim, "-seed", str(self.seed)]
        if extra:
            args += extra
        args.append(module)
        e = dict(os.environ)
        if env:
            e.update(env)
        if depthfirst:
            e["JAVA_TOOL_OPTIONS"] = (e.get("JAVA_TOOL_OPTIONS", "") + " -Dtlc2.tool.queue.IStateQueue=StateDeque").strip()
        t = time.time()
        try:
            p = subprocess.run(["timeout", str(timeout)] + args, cwd=d, env=e, capture_output=True, text=True)
        except Exception as ex:  # pragma: no cover
            raise Infra("tlc failed to start: %s" % ex)
        out = p.stdout + p.stderr
        st = {"module": module, "cfg": label or cfg, "mode": mode, "wall_s": round(time.time() - t, 1), "dir": d}
        m = re.search(r"(\d+) states generated, (\d+) distinct states found", out)
        if m:
            st["generated"], st["distinct"] = int(m.group(1)), int(m.group(2))
        m = re.search(r"The number of states generated: (\d+)", out)
        if m:
            st["generated"] = int(m.group(1))
            st.setdefault("distinct", 0)
        m = re.search(r"(\d+) traces generated", out)
        if m:
            st["traces"] = int(m.group(1))
        m = re.search(r"depth of the complete state graph search is (\d+)", out)
        if m:
            st["depth"] = int(m.group(1))
        st["violated"] = bool(re.search(r"Invariant .* is violated|Action property .* is violated|Temporal properties were violated|Temporal property .* was violated|Error: Deadlock|is violated", out))
        st["completed"] = "Model checking completed" in out or (mode == "simulate" and "Finished in" in out)
        st["out"] = out
        if p.returncode == 124:
            raise Infra("TLC timed out after %ss on %s %s" % (timeout, module, cfg))
        if "Error: TLC threw an unexpected exception" in out or "Parsing or semantic analysis failed" in out or "java.lang." in out and "StackOverflow" in out:
            raise Infra("TLC error on %s %s:\n%s" % (module, cfg, out[-3000:]))
        if st["violated"] and not expect_violation:
            # A violated invariant of the MODEL is a modelling problem or a design finding; never a verdict on the code.
            raise Infra("TLC reports a violated property on the model %s %s (fix the model or the design claim):\n%s" % (module, cfg, out[-4000:]))
        if not st["violated"] and not st["completed"]:
            raise Infra("TLC did not complete on %s %s:\n%s" % (module, cfg, out[-3000:]))
        if mode == "simulate" and env and env.get("VERIF_OUT") and os.path.exists(env["VERIF_OUT"]) and not module.startswith(("MerkleCRDT", "QueryGen")):
            st["behaviours_kept"] = thin_siblings(env["VERIF_OUT"])
        self.tlc_stats.append({k: v for k, v in st.items() if k not in ("out", "dir")})
        return st

    # ---------------------------------------------------------------- verdict
    def finish(self, level, violations, coverage, assumptions, known_ids=None):
        """violations: list of dicts(kind,msg,replay?) for THIS property. Handles known findings, evidence, exit."""
        known = load_known(self.prop)
        real, knownhits = [], {}
        for v in violations:
            k = match_known(known, v)
            if k:
                knownhits.setdefault(k["id"], (k, v))
            else:
                real.append(v)
        os.makedirs(EVID, exist_ok=True)
        states = sum(s.get("distinct", 0) for s in self.tlc_stats)
        trans = sum(s.get("generated", 0) for s in self.tlc_stats)
        cov = {"states": max(states, 0), "transitions": max(trans, 0), "tlc_runs": self.tlc_stats}
        cov.update(coverage)
        ev = {
            "property_id": self.prop, "tier": self.tier, "seed": self.seed, "level": level,
            "coverage": cov, "assumptions": assumptions, "wall_s": round(time.time() - self.t0, 1),
            "violations": len(real), "known_findings_hit": sorted(knownhits.keys()), "notes": self.notes,
        }
        with open(os.path.join(EVID, self.prop + ".json"), "w") as f:
            json.dump(ev, f, indent=1, default=str)
        for kid, (k, v) in sorted(knownhits.items()):
            print("KNOWN-FINDING: property=%s %s (%s)" % (self.prop, k["description"], kid))
        if real:
            os.makedirs(FOUND, exist_ok=True)
            seen = set()
            for v in real[:10]:
                path = v.get("replay")
                if not path:
                    path = os.path.join(FOUND, "%s-%s.json" % (self.prop, hashlib.sha1(json.dumps(v, sort_keys=True, default=str).encode()).hexdigest()[:10]))
                    with open(path, "w") as f:
                        json.dump(v, f, indent=1, default=str)
                if path in seen:
                    continue
                seen.add(path)
                print("VIOLATION property=%s replay=%s" % (self.prop, path))
                print("  " + str(v.get("kind")) + ": " + str(v.get("msg"))[:600])
            self.cleanup()
            sys.exit(1)
        print("OK property=%s tier=%s seed=%d wall=%.0fs %s" % (self.prop, self.tier, self.seed, time.time() - self.t0,
              json.dumps({k: v for k, v in coverage.items() if isinstance(v, (int, float, bool))})))
        self.cleanup()
        sys.exit(0)


def thin_siblings(path, keep=3):
    """TLC's simulator evaluates the exporting action constraint for EVERY candidate successor of the last step, so a
    simulation dump holds, per simulated behaviour, all alternatives of its last step (sometimes hundreds). A driver
    with a time budget would spend it on the alternatives of the first few simulations. Keep at most `keep` alternatives
    per simulation (first, middle, last), so that the budget is spread over as many simulations as possible."""
    lines = [l for l in open(path).read().split("\n") if l.strip()]
    groups, cur, curkey = [], [], None
    for l in lines:
        try:
            b = json.loads(l)
            if isinstance(b, str):
                b = json.loads(b)
        except Exception:
            b = None
        key = json.dumps(b[:-1], sort_keys=True) if isinstance(b, list) and len(b) > 1 else None
        if key is None or key != curkey:
            if cur:
                groups.append(cur)
            cur, curkey = [], key
        cur.append(l)
    if cur:
        groups.append(cur)
    out = []
    for g in groups:
        if len(g) <= keep:
            out += g
        else:
            idx = sorted({0, len(g) // 2, len(g) - 1})
            out += [g[i] for i in idx]
    with open(path, "w") as f:
        f.write("\n".join(out) + "\n")
    return len(out)


def in_repo(text):
    """Does a stack trace mention frames of the repository under test (/repo or the scratch copy in VERIF_REPO)?"""
    return "/repo/" in text or (os.path.realpath(REPO).rstrip("/") + "/") in text or "sourcenetwork/defradb/" in text.replace("sourcenetwork/defradb/verif", "")


def load_known(prop):
    p = os.path.join(ROOT, "KNOWN_FINDINGS.json")
    if not os.path.exists(p):
        return []
    data = json.load(open(p))
    return [k for k in data.get("findings", []) if k["property"] == prop]


def match_known(known, v):
    for k in known:
        m = k.get("match", {})
        ok = True
        if "kind" in m and not re.search(m["kind"], str(v.get("kind", ""))):
            ok = False
        if "msg" in m and not re.search(m["msg"], str(v.get("msg", ""))):
            ok = False
        if ok:
            return k
    return None


def main_wrapper(fn):
    try:
        fn()
    except Infra as e:
        print("INFRA-FAILURE: " + str(e)[:6000], file=sys.stderr)
        sys.exit(2)
